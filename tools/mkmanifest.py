#!/usr/bin/env python3
"""Regenerate MANIFEST.json from the table below (keeps the manifest valid and in one place)."""
import json, os, sys

ROOT = os.path.dirname(os.path.dirname(os.path.abspath(__file__)))
BASELINE = "cd /repo && /venv/bin/python -m pytest -ra -q -p no:cacheprovider --timeout=900 --continue-on-collection-errors"

# id -> (category, technique, level text, level note, design ref)
CHECKS = {}
NOT_APPLICABLE = {}


def load_table():
    path = os.path.join(ROOT, "tools", "manifest_table.json")
    with open(path) as f:
        t = json.load(f)
    return t


def main():
    t = load_table()
    props = [json.loads(l)["id"] for l in open(os.path.join(ROOT, "properties.jsonl")) if l.strip()]
    checks = []
    for pid in props:
        if pid in t["checks"]:
            c = t["checks"][pid]
            checks.append(
                {
                    "property_id": pid,
                    "quick_cmd": f"./check {pid} --tier quick",
                    "thorough_cmd": f"./check {pid} --tier thorough",
                    "evidence_file": f"/verif/evidence/{pid}.json",
                    "replay_cmd_template": f"./check {pid} --replay {{path}}",
                    "engine": "vpm",
                    "level_claimed": {"category": c.get("category", "exploration"), "text": c["text"], "design_ref": c.get("design_ref", f"DESIGN.md §4 {pid}")},
                    "level_note": c["note"],
                    "technique": c["technique"],
                }
            )
    na = [{"property_id": pid, "reason": t["not_applicable"][pid]} for pid in props if pid not in t["checks"]]
    missing = [x["property_id"] for x in na if not x["reason"]]
    assert not missing, missing
    m = {
        "version": 1,
        "setup_cmd": "./setup.sh",
        "hooks": {
            "guard": "MATHY_CORE_VERIF",
            "enable": "no source hooks exist; checks import /repo's working tree directly (PYTHONPATH=/repo) and export MATHY_CORE_VERIF=1 for symmetry",
            "baseline_off_cmd": BASELINE,
            "source_commits": [],
            "add_only": True,
        },
        "engines": [
            {
                "name": "vpm",
                "path": "harness/vpm",
                "serves_properties": [c["property_id"] for c in checks],
                "kind_free_text": "property-based testing (Hypothesis strategies, rule-based state machines, exhaustive small-domain enumeration) and atheris fuzzing with explicit independent oracles; one module per property",
            }
        ],
        "checks": checks,
        "notes": t.get("notes", ""),
        "not_applicable": na,
    }
    with open(os.path.join(ROOT, "MANIFEST.json"), "w") as f:
        json.dump(m, f, indent=1)
        f.write("\n")
    try:
        import jsonschema

        jsonschema.validate(m, json.load(open("/root/.vp/MANIFEST.schema.json")))
        print("manifest valid;", len(checks), "checks,", len(na), "not_applicable")
    except ImportError:
        print("manifest written (jsonschema not available to validate);", len(checks), "checks")


if __name__ == "__main__":
    main()
