#!/usr/bin/env python3
"""Rewrites the generated blocks of DESIGN.md: the list of fix commits (9.2) and the seeded-changes table (9.5)."""
import json, os, re, subprocess
ROOT = os.path.dirname(os.path.dirname(os.path.abspath(__file__)))
s = open(os.path.join(ROOT, "DESIGN.md")).read()
log = subprocess.check_output(["git", "-C", "/repo", "log", "--format=%h %s", "a71d55f..HEAD"]).decode().strip().splitlines()
fixes = "\n".join(f"* `{l.split()[0]}` {' '.join(l.split()[1:])}" for l in reversed(log))
a = s.index("### 9.2 The repairs")
b = s.index("Each is one root cause, the pinned suite")
s = s[:a] + "### 9.2 The repairs (`fix:` commits in /repo, oldest first)\n" + fixes + "\n\n" + s[b:]
rows = []
tot = own = first_missed = 0
for sid in sorted(os.listdir(os.path.join(ROOT, "seeded"))):
    m = json.load(open(os.path.join(ROOT, "seeded", sid, "meta.json")))
    tot += 1
    own += m["breaks_property"] in m["caught_by"]
    n = m["note"].lower()
    first_missed += any(k in n for k in ("initially", "caught after", "caught by c08 after", "since pairs", "first trial"))
    rows.append(f"| {sid} | {m['needs_to_manifest']} | {', '.join(m['caught_by'])} | {', '.join(m['not_caught_by']) or '-'} | {m['note'] or '-'} |")
a = s.index("| id | needs, to manifest | caught by | not caught by | note |")
b = s.index("Every seeded change is caught by at least one check")
s = s[:a] + "| id | needs, to manifest | caught by | not caught by | note |\n|---|---|---|---|---|\n" + "\n".join(rows) + "\n\n" + s[b:]
open(os.path.join(ROOT, "DESIGN.md"), "w").write(s)
print("seeded:", tot, "caught by own property's check:", own, "first missed:", first_missed)
