#!/usr/bin/env python3
"""After tools/seeded_table.py: rewrite caught_by / not_caught_by / ran of every seeded/*/meta.json from out/seeded_table.txt
(what the checks did at this commit), leaving needs_to_manifest and note alone. Prints every change of status."""
import json, os, re
ROOT = os.path.dirname(os.path.dirname(os.path.abspath(__file__)))
cur = None
res = {}
for line in open(os.path.join(ROOT, "out", "seeded_table.txt")):
    m = re.match(r"seed seeded/(\S+):", line)
    if m:
        cur = m.group(1)
        res[cur] = {}
        continue
    m = re.match(r"\s+(CAUGHT|MISSED|ERROR\(\d+\)) by (C\d\d)", line)
    if m and cur:
        res[cur][m.group(2)] = m.group(1)
for sid, r in sorted(res.items()):
    p = os.path.join(ROOT, "seeded", sid, "meta.json")
    m = json.load(open(p))
    order = m["caught_by"] + m["not_caught_by"]
    caught = [c for c in order if r.get(c) == "CAUGHT"]
    missed = [c for c in order if r.get(c) == "MISSED"]
    err = [c for c in order if c in r and r[c].startswith("ERROR")]
    if err:
        print("!!", sid, "harness error in", err)
    if caught != m["caught_by"] or missed != m["not_caught_by"]:
        print(sid, "caught_by", m["caught_by"], "->", caught, "| not_caught_by", m["not_caught_by"], "->", missed)
    m["caught_by"], m["not_caught_by"] = caught, missed
    m["ran"] = [f"tools/try_seed.sh seeded/{sid} " + " ".join(order)]
    json.dump(m, open(p, "w"), indent=1)
