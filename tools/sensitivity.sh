#!/bin/sh
# tools/sensitivity.sh <patch> <Cxx> [<Cxx> ...]
# Applies <patch> to a scratch copy of /repo (outside /repo and /verif), confirms the pinned tests still
# pass there, then runs the named quick checks against the copy WITHOUT the committed regression replays
# (so only the generators count). Prints one line per check: CAUGHT (exit 1) / MISSED (exit 0) / ERROR.
# Removes the scratch copy afterwards.
set -u
PATCH="$(realpath "$1")"; shift
HERE="$(cd "$(dirname "$0")/.." && pwd)"
TMP="$(mktemp -d /tmp/sens.XXXXXX)"
trap 'rm -rf "$TMP"' EXIT
rsync -a --exclude .git --exclude __pycache__ --exclude node_modules --exclude website/node_modules /repo/ "$TMP/repo/"
cd "$TMP/repo" || exit 2
if ! patch -p1 -s < "$PATCH"; then echo "PATCH-FAILED $(basename "$PATCH")"; exit 2; fi
T=$(env -u MATHY_CORE_VERIF /venv/bin/python -m pytest -q -p no:cacheprovider --timeout=900 -x 2>&1 | tail -1)
case "$T" in *failed*|*error*) echo "TESTS-FAIL $(basename "$PATCH"): $T";; *) echo "tests: $T";; esac
for C in "$@"; do
  S=$(date +%s)
  OUT=$(VERIF_EVIDENCE_DIR="$TMP/evidence" VERIF_REPO="$TMP/repo" VERIF_SKIP_REPLAYS=1 VERIF_MAX_ROUNDS=1 VERIF_SEED="${VERIF_SEED:-1}" "$HERE/check" "$C" --tier quick 2>&1); RC=$?
  E=$(date +%s)
  case $RC in
    1) echo "CAUGHT $(basename "$PATCH") by $C in $((E-S))s: $(echo "$OUT" | grep -m1 bucket)";;
    0) echo "MISSED $(basename "$PATCH") by $C in $((E-S))s";;
    *) echo "ERROR($RC) $(basename "$PATCH") by $C: $(echo "$OUT" | tail -3)";;
  esac
done
