#!/usr/bin/env python3
"""Re-run every seeded change (seeded/*/) against the checks named in its meta.json, in parallel.
Writes out/seeded_table.txt; exit 1 if a check listed under caught_by misses its seed."""
import concurrent.futures, json, os, subprocess, sys
ROOT = os.path.dirname(os.path.dirname(os.path.abspath(__file__)))
def job(sid):
    m = json.load(open(os.path.join(ROOT, "seeded", sid, "meta.json")))
    checks = m["caught_by"] + m["not_caught_by"]
    p = subprocess.run([os.path.join(ROOT, "tools", "try_seed.sh"), os.path.join(ROOT, "seeded", sid)] + checks, stdout=subprocess.PIPE, stderr=subprocess.STDOUT, text=True)
    return sid, m, p.stdout
def main():
    only = sys.argv[1:]
    sids = sorted(d for d in os.listdir(os.path.join(ROOT, "seeded")) if os.path.isdir(os.path.join(ROOT, "seeded", d)) and (not only or d in only))
    bad = 0
    lines = []
    with concurrent.futures.ThreadPoolExecutor(int(os.environ.get("JOBS", "8"))) as ex:
        for sid, m, out in ex.map(job, sids):
            lines.append(out.rstrip())
            for c in m["caught_by"]:
                if f"CAUGHT by {c} " not in out:
                    bad += 1
                    lines.append(f"  !! expected {c} to catch {sid}")
            print(out.rstrip(), flush=True)
    os.makedirs(os.path.join(ROOT, "out"), exist_ok=True)
    open(os.path.join(ROOT, "out", "seeded_table.txt"), "w").write("\n".join(lines) + "\n")
    print("unexpected misses:", bad)
    return 1 if bad else 0
if __name__ == "__main__":
    sys.exit(main())
