#!/usr/bin/env python3
"""tools/mkmutant.py <name> <file relative to repo> <<< python-literal list of (old, new) pairs -> mutants/<name>.patch"""
import ast, difflib, sys
name, rel = sys.argv[1], sys.argv[2]
pairs = ast.literal_eval(sys.stdin.read())
src = open("/repo/" + rel).read()
out = src
for old, new in pairs:
    assert out.count(old) == 1, (name, old, out.count(old))
    out = out.replace(old, new)
d = difflib.unified_diff(src.splitlines(True), out.splitlines(True), "a/" + rel, "b/" + rel)
open(f"/verif/mutants/{name}.patch", "w").write("".join(d))
print("wrote", name)
