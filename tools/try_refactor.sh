#!/bin/sh
# tools/try_refactor.sh <dir with patch.diff> [Cxx ...]   (default: all 18)
# Soundness test: applies a BEHAVIOUR-PRESERVING change to a scratch copy of /repo HEAD, confirms the pinned tests pass,
# then runs the quick checks against the copy. Every check must exit 0: anything else is a false alarm (exit 1) or a
# harness that depends on internals (exit 2).
set -u
D="$(realpath "$1")"; shift
HERE="$(cd "$(dirname "$0")/.." && pwd)"
CHECKS="${*:-C01 C02 C03 C04 C05 C06 C07 C08 C09 C10 C11 C12 C13 C14 C15 C16 C17 C18}"
TMP="$(mktemp -d /tmp/rfk.XXXXXX)"
trap 'rm -rf "$TMP"' EXIT
git -C /repo archive HEAD | tar -x -C "$TMP"
cd "$TMP" || exit 2
if ! patch -p1 -s < "$D/patch.diff"; then echo "PATCH-FAILED $D"; exit 2; fi
T=$(env -u MATHY_CORE_VERIF PYTHONPATH="$TMP" /venv/bin/python -m pytest -q -p no:cacheprovider --timeout=900 2>&1 | tail -1)
echo "refactor $(basename "$(dirname "$D")")/$(basename "$D"): tests: $T"
for C in $CHECKS; do
  OUT=$(VERIF_EVIDENCE_DIR="$TMP/.evidence" VERIF_REPO="$TMP" VERIF_SEED="${VERIF_SEED:-1}" VERIF_SCALE="${VERIF_SCALE:-1}" "$HERE/check" "$C" --tier quick 2>&1); RC=$?
  case $RC in
    0) echo "  quiet $C";;
    1) echo "  ALARM $C: $(echo "$OUT" | grep -m1 bucket) $(echo "$OUT" | grep -m1 '  case' | cut -c1-200) $(echo "$OUT" | grep -m1 '  detail' | cut -c1-300)";;
    *) echo "  HARNESS-ERROR($RC) $C: $(echo "$OUT" | grep -v "^  File" | tail -4 | tr '\n' ' ' | cut -c1-400)";;
  esac
done
