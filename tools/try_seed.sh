#!/bin/sh
# tools/try_seed.sh <dir with patch.diff demo.py> <Cxx> [<Cxx> ...]
# Confirms a seeded change: patch applies to a scratch copy of /repo HEAD, pinned tests pass, demo fails with
# the change and passes without it; then runs the named quick checks (generators only) against the copy.
set -u
D="$(realpath "$1")"; shift
HERE="$(cd "$(dirname "$0")/.." && pwd)"
TMP="$(mktemp -d /tmp/seed.XXXXXX)"
trap 'rm -rf "$TMP"' EXIT
git -C /repo archive HEAD | tar -x -C "$TMP" 2>/dev/null || { mkdir -p "$TMP"; rsync -a --exclude .git /repo/ "$TMP/"; }
cd "$TMP" || exit 2
DEMO0=$(PYTHONPATH="$TMP" /venv/bin/python "$D/demo.py" >/dev/null 2>&1; echo $?)
if ! patch -p1 -s < "$D/patch.diff"; then echo "PATCH-FAILED"; exit 2; fi
T=$(env -u MATHY_CORE_VERIF PYTHONPATH="$TMP" /venv/bin/python -m pytest -q -p no:cacheprovider --timeout=900 2>&1 | tail -1)
DEMO1=$(PYTHONPATH="$TMP" /venv/bin/python "$D/demo.py" >/dev/null 2>&1; echo $?)
echo "seed $(basename "$(dirname "$D")")/$(basename "$D"): tests: $T | demo unchanged=$DEMO0 changed=$DEMO1"
for C in "$@"; do
  S=$(date +%s)
  OUT=$(VERIF_EVIDENCE_DIR="$TMP/.evidence" VERIF_REPO="$TMP" VERIF_SKIP_REPLAYS=1 VERIF_MAX_ROUNDS=1 VERIF_SEED="${VERIF_SEED:-1}" "$HERE/check" "$C" --tier "${TIER:-quick}" 2>&1); RC=$?
  E=$(date +%s)
  case $RC in
    1) echo "  CAUGHT by $C in $((E-S))s: $(echo "$OUT" | grep -m1 bucket) $(echo "$OUT" | grep -m1 '  case' | cut -c1-200)";;
    0) echo "  MISSED by $C in $((E-S))s";;
    *) echo "  ERROR($RC) by $C: $(echo "$OUT" | tail -3)";;
  esac
done
