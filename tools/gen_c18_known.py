#!/usr/bin/env python3
"""One-off: list every (shape, clause) of the exhaustively enumerated C18 domain that violates the
known-class clauses b/d/g today (known finding F-C18-2). Run via:
  PYTHONPATH=/repo:/verif/.deps:/verif/harness /venv/bin/python tools/gen_c18_known.py > known/c18_shapes.txt
The check never writes this file."""
import sys
from vpm import c18, shapes as S

print("# F-C18-2: shapes of the enumerated domain (all shapes <= 9 nodes, all full shapes <= 19 nodes) on which")
print("# layout() violates (b) child-side, (d) level spacing or (g) mirror symmetry. Format: <shape> <clauses>")
n = tot = 0
for sh in c18.enumerated_shapes(True):
    t = S.to_text(sh)
    tot += 1
    bad = set()
    for ux, uy in ((1.0, 1.0), (2.0, 0.5), (0.5, 3.0)):
        b, _ = c18.clause_violations(t, ux, uy)
        assert not (b - {"b", "d", "g"}), (t, b)
        bad |= b
    if bad:
        n += 1
        print(t, ",".join(sorted(bad)))
print(f"# {n} of {tot} enumerated shapes listed", file=sys.stderr)
