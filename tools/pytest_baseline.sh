#!/bin/sh
# Runs the pinned test suite of the repository under test (guard off) and prints the summary line.
REPO="${1:-/repo}"
cd "$REPO" && env -u MATHY_CORE_VERIF /venv/bin/python -m pytest -ra -q -p no:cacheprovider --timeout=900 --continue-on-collection-errors 2>&1 | tail -3
