#!/bin/sh
# Runs every (mutant patch, checks) pair listed in mutants/TABLE in parallel; output -> out/sensitivity.txt
HERE="$(cd "$(dirname "$0")/.." && pwd)"
mkdir -p "$HERE/out"
grep -v '^#' "$HERE/mutants/TABLE" | grep . | xargs -P "${JOBS:-5}" -L 1 sh -c '"$0"/tools/sensitivity.sh "$0"/mutants/$1 $(shift; echo "$@") 2>&1 | grep -E "CAUGHT|MISSED|ERROR|FAIL"' "$HERE" | tee "$HERE/out/sensitivity.txt"
