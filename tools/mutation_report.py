#!/usr/bin/env python3
"""Summarise out/mutation/results.jsonl and show what each surviving mutant changed."""
import ast, collections, difflib, json, os, sys
sys.path.insert(0, os.path.dirname(os.path.abspath(__file__)))
import mutate
RESULTS = os.environ.get("MUTATE_RESULTS", "results.jsonl")  # results-swap.jsonl for MUTATE_OPS=swap
rows = [json.loads(l) for l in open(os.path.join(mutate.ROOT, "out", "mutation", RESULTS)) if l.strip()]
rows = list({r["mutant"]: r for r in rows}.values())  # last row per mutant (--retry-survivors appends)
c = collections.Counter(r["result"].split(":")[0] for r in rows)
by = collections.Counter(r["result"] for r in rows if r["result"].startswith("caught-by"))
print(dict(c)); print(dict(by))
skip = int(sys.argv[1]) if len(sys.argv) > 1 else 0
n = 0
for r in rows:
    if r["result"] in ("SURVIVED",) or r["result"].startswith(("error", "timeout", "harness")):
        n += 1
        if n <= skip:
            continue
        rel, lineno, fn, kind, ids = r["mutant"].rsplit(":", 4)
        mid, sub = ids.split(".")
        orig = ast.unparse(ast.parse(open("/repo/" + rel).read())) + "\n"
        try:
            mut = mutate.mutant_source(rel, int(mid), kind, int(sub))
            d = [l for l in difflib.unified_diff(orig.splitlines(), mut.splitlines(), lineterm="", n=0) if l[0] in "+-" and not l.startswith(("+++", "---"))]
            txt = " || ".join(x.strip() for x in d)[:int(os.environ.get("MUTATE_WIDTH", "260"))]
        except Exception as e:
            txt = repr(e)
        print(f"{r['result'][:9]} {rel.split('/')[-1]}:{fn}: {txt}")
