#!/usr/bin/env python3
"""Systematic mutation sweep (sensitivity of the checks to small realistic slips).

  tools/mutate.py list                      -> prints the number of mutation points per file
  tools/mutate.py run [--jobs N] [--only file] [--limit K]
       for every mutant: apply to a scratch copy of /repo, run the pinned tests; if they still pass (a survivor of the
       repository's own suite), run the quick checks mapped to that file until one reports a violation.
       Results: out/mutation/results.jsonl  (one line per mutant: killed-by-tests | caught-by:<Cxx> | SURVIVED | error)
Mutation operators: comparison flips, and/or swap, dropped `not`, small integer and boolean constant changes, + <-> -,
deleted expression statements (method calls)."""
import ast, copy, json, os, shutil, subprocess, sys, tempfile, concurrent.futures

REPO = "/repo"
ROOT = os.path.dirname(os.path.dirname(os.path.abspath(__file__)))
FILES = {
    "mathy_core/tokenizer.py": ["C11", "C03", "C10", "C12"],
    "mathy_core/parser.py": ["C03", "C10", "C12", "C04"],
    "mathy_core/expressions.py": ["C05", "C04", "C13", "C14", "C01", "C09", "C03"],
    "mathy_core/rule.py": ["C06", "C07", "C09"],
    "mathy_core/rules/associative_swap.py": ["C01", "C07", "C08", "C06", "C09"],
    "mathy_core/rules/balanced_move.py": ["C02", "C06", "C07", "C08", "C09"],
    "mathy_core/rules/commutative_swap.py": ["C01", "C02", "C07", "C08", "C06", "C09"],
    "mathy_core/rules/constants_simplify.py": ["C01", "C06", "C07", "C08", "C09"],
    "mathy_core/rules/distributive_factor_out.py": ["C01", "C06", "C07", "C08", "C09"],
    "mathy_core/rules/distributive_multiply_across.py": ["C01", "C06", "C07", "C08", "C09"],
    "mathy_core/rules/multiplicative_inverse.py": ["C01", "C06", "C07", "C08", "C09"],
    "mathy_core/rules/restate_subtraction.py": ["C01", "C02", "C06", "C07", "C08", "C09"],
    "mathy_core/rules/variable_multiply.py": ["C01", "C06", "C07", "C08", "C09"],
    "mathy_core/util.py": ["C16", "C01", "C08", "C06", "C02"],
    "mathy_core/tree.py": ["C14", "C15", "C13", "C07", "C18"],
    "mathy_core/layout.py": ["C18"],
    "mathy_core/problems.py": ["C17"],
}
SKIP_FUNCS = {"to_math_ml_fragment", "to_math_ml", "make_ml_tag", "get_ml_name", "terminal_text", "with_color", "color", "add_class", "clear_classes",
              "compare_expression_string_values", "raise_with_history", "compare_expression_values", "compare_equation_values", "print_error", "pad_array",
              "is_debug_mode", "set_changed", "all_changed", "raw"}
SWAP = {"left": "right", "right": "left", "set_left": "set_right", "set_right": "set_left", "leftExponent": "rightExponent", "rightExponent": "leftExponent", "leftVariable": "rightVariable", "rightVariable": "leftVariable"}
OPS = os.environ.get("MUTATE_OPS", "basic")  # basic | swap | class | all
# a neighbouring expression class in an isinstance test or a constructor call (the copy-and-paste slip)
CLASS = {"AddExpression": "SubtractExpression", "SubtractExpression": "AddExpression", "MultiplyExpression": "DivideExpression", "DivideExpression": "MultiplyExpression",
         "PowerExpression": "MultiplyExpression", "ConstantExpression": "VariableExpression", "VariableExpression": "ConstantExpression", "NegateExpression": "AbsExpression",
         "EqualExpression": "AddExpression", "BinaryExpression": "MathExpression"}
CMP = {ast.Eq: ast.NotEq, ast.NotEq: ast.Eq, ast.Lt: ast.LtE, ast.LtE: ast.Lt, ast.Gt: ast.GtE, ast.GtE: ast.Gt, ast.Is: ast.IsNot, ast.IsNot: ast.Is, ast.In: ast.NotIn, ast.NotIn: ast.In}


class Collector(ast.NodeVisitor):
    def __init__(self):
        self.points = []
        self.stack = []
        self.idx = 0

    def visit_FunctionDef(self, node):
        if node.name in SKIP_FUNCS:
            return
        self.stack.append(node.name)
        self.generic_visit(node)
        self.stack.pop()

    def generic_visit(self, node):
        node._mid = self.idx
        self.idx += 1
        fn = ".".join(self.stack)
        if isinstance(node, ast.Compare):
            for i, op in enumerate(node.ops):
                if type(op) in CMP:
                    self.points.append((node._mid, "cmp", i, fn, node.lineno))
        elif isinstance(node, ast.BoolOp):
            self.points.append((node._mid, "bool", 0, fn, node.lineno))
        elif isinstance(node, ast.UnaryOp) and isinstance(node.op, ast.Not):
            self.points.append((node._mid, "not", 0, fn, node.lineno))
        elif isinstance(node, ast.Constant) and not isinstance(node.value, str) and node.value is not None and node.value is not Ellipsis:
            if isinstance(node.value, bool) or (isinstance(node.value, int) and abs(node.value) <= 100):
                self.points.append((node._mid, "const", 0, fn, node.lineno))
        elif isinstance(node, ast.BinOp) and isinstance(node.op, (ast.Add, ast.Sub)):
            self.points.append((node._mid, "arith", 0, fn, node.lineno))
        elif isinstance(node, ast.Attribute) and node.attr in SWAP and self.stack and OPS in ("all", "swap"):
            self.points.append((node._mid, "swap", 0, fn, node.lineno))
        elif isinstance(node, ast.Name) and node.id in ("LEFT", "RIGHT") and self.stack and OPS in ("all", "swap"):
            self.points.append((node._mid, "swapname", 0, fn, node.lineno))
        elif isinstance(node, ast.Name) and node.id in CLASS and isinstance(node.ctx, ast.Load) and self.stack and OPS in ("all", "class"):
            self.points.append((node._mid, "class", 0, fn, node.lineno))
        elif isinstance(node, ast.Expr) and isinstance(node.value, ast.Call) and self.stack:
            f = node.value.func
            if not (isinstance(f, ast.Attribute) and f.attr in ("set_changed", "all_changed", "seterr")):
                self.points.append((node._mid, "delstmt", 0, fn, node.lineno))
        super().generic_visit(node)


class Applier(ast.NodeTransformer):
    def __init__(self, target, kind, sub):
        self.target, self.kind, self.sub = target, kind, sub
        self.idx = 0
        self.stack = []
        self.done = False

    def visit_FunctionDef(self, node):
        if node.name in SKIP_FUNCS:
            return node
        self.stack.append(node.name)
        r = self.generic_visit(node)
        self.stack.pop()
        return r

    def generic_visit(self, node):
        mid = self.idx
        self.idx += 1
        if mid == self.target and not self.done:
            self.done = True
            k = self.kind
            if k == "cmp":
                node.ops[self.sub] = CMP[type(node.ops[self.sub])]()
            elif k == "bool":
                node.op = ast.Or() if isinstance(node.op, ast.And) else ast.And()
            elif k == "not":
                super().generic_visit(node)
                return node.operand
            elif k == "const":
                v = node.value
                node.value = (not v) if isinstance(v, bool) else (1 if v == 0 else 0 if v == 1 else v + 1)
            elif k == "arith":
                node.op = ast.Sub() if isinstance(node.op, ast.Add) else ast.Add()
            elif k == "delstmt":
                return ast.Pass()
            elif k == "swap":
                node.attr = SWAP[node.attr]
            elif k == "swapname":
                node.id = "RIGHT" if node.id == "LEFT" else "LEFT"
            elif k == "class":
                node.id = CLASS[node.id]
        return super().generic_visit(node)


def points_for(rel):
    src = open(os.path.join(REPO, rel)).read()
    tree = ast.parse(src)
    c = Collector()
    c.visit(tree)
    pts = c.points
    if OPS == "swap":
        pts = [p for p in pts if p[1] in ("swap", "swapname")]
    if OPS == "class":
        pts = [p for p in pts if p[1] == "class"]
    return src, pts


def mutant_source(rel, target, kind, sub):
    src = open(os.path.join(REPO, rel)).read()
    tree = ast.parse(src)
    a = Applier(target, kind, sub)
    new = a.visit(tree)
    ast.fix_missing_locations(new)
    assert a.done
    return ast.unparse(new) + "\n"


def run_one(job):
    rel, (mid, kind, sub, fn, lineno) = job
    name = f"{rel}:{lineno}:{fn}:{kind}:{mid}.{sub}"
    tmp = tempfile.mkdtemp(prefix="mut.")
    try:
        subprocess.run(f"git -C {REPO} archive HEAD | tar -x -C {tmp}", shell=True, check=True)
        try:
            code = mutant_source(rel, mid, kind, sub)
        except Exception as e:
            return {"mutant": name, "result": "error", "detail": repr(e)}
        with open(os.path.join(tmp, rel), "w") as f:
            f.write(code)
        env = dict(os.environ, PYTHONPATH=tmp, PYTHONDONTWRITEBYTECODE="1")
        env.pop("MATHY_CORE_VERIF", None)
        p = subprocess.run(["/venv/bin/python", "-m", "pytest", "-q", "-x", "-p", "no:cacheprovider", "--timeout=120"], cwd=tmp, env=env, stdout=subprocess.PIPE, stderr=subprocess.STDOUT, text=True, timeout=600)
        if p.returncode != 0:
            return {"mutant": name, "result": "killed-by-tests"}
        for c in FILES[rel]:
            env2 = dict(os.environ, VERIF_REPO=tmp, VERIF_SKIP_REPLAYS="1", VERIF_MAX_ROUNDS="1", VERIF_EVIDENCE_DIR=os.path.join(tmp, ".ev"), VERIF_SEED="1")
            try:
                q = subprocess.run([os.path.join(ROOT, "check"), c, "--tier", "quick"], env=env2, stdout=subprocess.PIPE, stderr=subprocess.STDOUT, text=True, timeout=1500)
            except subprocess.TimeoutExpired:
                return {"mutant": name, "result": f"timeout-in:{c}"}
            if q.returncode == 1:
                b = [l for l in q.stdout.splitlines() if "bucket:" in l]
                return {"mutant": name, "result": f"caught-by:{c}", "bucket": b[0].strip() if b else ""}
            if q.returncode == 2:
                return {"mutant": name, "result": f"harness-error-in:{c}", "detail": q.stdout[-600:]}
        return {"mutant": name, "result": "SURVIVED", "checks": FILES[rel]}
    except Exception as e:
        return {"mutant": name, "result": "error", "detail": repr(e)}
    finally:
        shutil.rmtree(tmp, ignore_errors=True)


def main():
    args = sys.argv[1:]
    if not args or args[0] == "list":
        tot = 0
        for rel in FILES:
            _, pts = points_for(rel)
            print(f"{len(pts):5d} {rel}")
            tot += len(pts)
        print(tot, "mutation points")
        return
    jobs_n = int(args[args.index("--jobs") + 1]) if "--jobs" in args else 8
    only = args[args.index("--only") + 1] if "--only" in args else None
    limit = int(args[args.index("--limit") + 1]) if "--limit" in args else None
    stride = int(args[args.index("--stride") + 1]) if "--stride" in args else 1
    jobs = []
    for rel in FILES:
        if only and only not in rel:
            continue
        _, pts = points_for(rel)
        jobs += [(rel, p) for p in pts]
    jobs = jobs[::stride]
    if limit:
        jobs = jobs[:limit]
    out = os.path.join(ROOT, "out", "mutation")
    os.makedirs(out, exist_ok=True)
    path = os.path.join(out, "results.jsonl" if OPS == "basic" else f"results-{OPS}.jsonl")
    done = set()
    if os.path.exists(path):
        rows = [json.loads(l) for l in open(path) if l.strip()]
        # --retry-survivors: run the SURVIVED / timeout rows again (after the checks were strengthened); the report
        # takes the last row per mutant
        retry = "--retry-survivors" in args
        last = {r["mutant"]: r for r in rows}
        done = {m for m, r in last.items() if not (retry and (r["result"] == "SURVIVED" or r["result"].startswith(("timeout", "harness", "error"))))}
    jobs = [j for j in jobs if f"{j[0]}:{j[1][4]}:{j[1][3]}:{j[1][1]}:{j[1][0]}.{j[1][2]}" not in done]
    print(len(jobs), "mutants to run", flush=True)
    with open(path, "a") as f, concurrent.futures.ThreadPoolExecutor(jobs_n) as ex:
        for r in ex.map(run_one, jobs):
            f.write(json.dumps(r) + "\n")
            f.flush()
            print(r["mutant"], r["result"], flush=True)


if __name__ == "__main__":
    main()
