#!/bin/sh
# setup_cmd: offline install of the harness's third-party deps into /verif/.deps (idempotent).
set -e
cd "$(dirname "$0")"
DEPS="$(pwd)/.deps"
WHEELS=/opt/veriftools/wheels
PY=/venv/bin/python
need=0
PYTHONPATH="$DEPS" $PY -c "import hypothesis, sortedcontainers" 2>/dev/null || need=1
if [ "$need" = 1 ]; then
  mkdir -p "$DEPS"
  PIP_NO_INDEX=1 $PY -m pip install --quiet --no-index --find-links "$WHEELS" --target "$DEPS" --upgrade hypothesis >/dev/null
fi
# atheris is only used by the thorough tier of C03/C10/C11; absence is tolerated there (reported in evidence).
PYTHONPATH="$DEPS" $PY -c "import atheris" 2>/dev/null || \
  PIP_NO_INDEX=1 $PY -m pip install --quiet --no-index --find-links "$WHEELS" --target "$DEPS" atheris >/dev/null 2>&1 || \
  echo "setup: atheris not installable here (thorough fuzz campaigns will be skipped)" >&2
PYTHONPATH="$DEPS" $PY -c "import hypothesis; print('setup ok: hypothesis', hypothesis.__version__)"
