"""C15 — rotation preserves in-order sequence and link consistency."""
from . import shapes as S
from .runner import hyp_run

PROP = "C15"
LEVEL = "exploration"
RULE = (
    "exhaustive: every shape with <= 8 nodes (quick) / <= 10 (thorough) x every node rotated once on a fresh "
    "tree (plain BinaryTreeNode and MathExpression families), plus Hypothesis-drawn shapes to 60 nodes with "
    "sequences of up to 6 rotations; oracle = in-order identity sequence and full link audit computed from "
    "left/right/parent only; a case is non-trivial when the rotated node is not the root; distinct by "
    "(shape, node index list, family)"
)
ASSUMPTIONS = []


def _maker(family):
    if family == "plain":
        from mathy_core.tree import BinaryTreeNode

        return lambda kind: BinaryTreeNode()
    from .c14 import _mk_math

    return _mk_math()


def snapshot(nodes):
    return [(id(n.left) if n.left is not None else None, id(n.right) if n.right is not None else None, id(n.parent) if n.parent is not None else None) for n in nodes]


def check_rotation(ctx, case):
    """A tree operation that raises on a well-formed tree is a violation (bucket 'raised'), not a harness error."""
    from . import engine as EN

    try:
        return _check_rotation(ctx, case)
    except Exception as ex:
        if not EN.raised_in_code_under_test(ex):
            raise
        return ctx.fail(("raised",) + EN.exc_site(ex), case, {"error": repr(ex)[:200]})


def _check_rotation(ctx, case):
    shape = S.from_text(case["shape"])
    family = case["family"]
    make = _maker(family)
    root, nodes = S.build(shape, make)
    if case.get("twin"):
        # two sibling subtrees whose nodes carry the SAME ids: clone() keeps ids (the distributive rule inserts such clones),
        # so a re-link that finds its slot by id instead of by object picks the wrong one
        twin = root.clone()
        twin_nodes = [a for a, _ in S.naive(twin, "preorder")]
        top = make("both")
        if case["twin"] == "L":
            top.set_left(twin), top.set_right(root)
        else:
            top.set_left(root), top.set_right(twin)
        nodes = [top] + nodes + twin_nodes
        if len(twin_nodes) * 2 + 1 != len(nodes) or S.link_audit(top, nodes):
            ctx.count("twin-precondition-failed")  # clone() itself is C13's business
            return
        ctx.count("twin-trees")
    ctx.sample(case)
    for idx in case["rotate"]:
        node = nodes[idx % len(nodes)]
        cur_root = node.get_root() if False else None
        # locate current root by walking parents of nodes[0] (independent of get_root)
        r = nodes[0]
        while r.parent is not None:
            r = r.parent
        before_inorder = [id(a) for a, _ in S.naive(r, "inorder")]
        parent = node.parent
        grand = parent.parent if parent is not None else None
        was_left = parent is not None and parent.left is node
        gp_side = None if grand is None else ("left" if grand.left is parent else "right")
        inner = None if parent is None else (node.right if was_left else node.left)
        snap = snapshot(nodes)
        ret = node.rotate()
        ctx.count("rotations")
        if ret is not node:
            return ctx.fail(("rotate", "return"), case, "rotate() did not return the node")
        if parent is None:
            if snapshot(nodes) != snap:
                return ctx.fail(("rotate", "root-changed"), case, "rotating the root changed links")
            continue
        ctx.nontriv((case["shape"], tuple(case["rotate"]), family, case.get("twin")))
        new_root = node if grand is None else r
        aud = S.link_audit(new_root, nodes)
        if aud:
            return ctx.fail(("rotate", "links", aud), case, {"node": idx, "audit": aud})
        after_inorder = [id(a) for a, _ in S.naive(new_root, "inorder")]
        if after_inorder != before_inorder:
            return ctx.fail(("rotate", "inorder"), case, {"node": idx})
        if node.parent is not grand:
            return ctx.fail(("rotate", "grandparent-up"), case, {"node": idx})
        if grand is not None and getattr(grand, gp_side) is not node:
            return ctx.fail(("rotate", "grandparent-down"), case, {"node": idx})
        opp = node.right if was_left else node.left
        if opp is not parent or parent.parent is not node:
            return ctx.fail(("rotate", "parent-below"), case, {"node": idx})
        moved = parent.left if was_left else parent.right
        if moved is not inner:
            return ctx.fail(("rotate", "inner-subtree"), case, {"node": idx})
        # links of nodes not involved are untouched
        involved = {id(node), id(parent)} | ({id(grand)} if grand is not None else set()) | ({id(inner)} if inner is not None else set())
        now = snapshot(nodes)
        for n, a, b in zip(nodes, snap, now):
            if id(n) not in involved and a != b:
                return ctx.fail(("rotate", "bystander-changed"), case, {"node": idx})


def check_regroup(ctx, case):
    """The associative regrouping rule is a rotation: applied at every node where it reports applicable (in place, on a
    tree parsed from text, and on the copy clone_from_root gives an agent), the in-order sequence of node objects of the
    whole tree is unchanged, all links are mutually consistent, the slot of the grandparent that held the parent now holds
    the node, and the change's result is the rotated node."""
    from . import audit as A
    from . import engine as EN

    try:
        return _check_regroup(ctx, case, A, EN)
    except Exception as ex:
        if not EN.raised_in_code_under_test(ex):
            raise
        return ctx.fail(("regroup-raised",) + EN.exc_site(ex), case, {"error": repr(ex)[:200]})


def _check_regroup(ctx, case, A, EN):
    from mathy_core.rules import AssociativeSwapRule

    probe = EN.parse(case["text"])
    if probe is None:
        return
    count = len(A.inorder(probe))
    rule = AssociativeSwapRule()
    for k in range(count):
        for via_clone in (False, True):
            root = EN.parse(case["text"])
            nodes = A.inorder(root)
            n = nodes[k]
            if not rule.can_apply_to(n):
                break
            if via_clone:
                n = n.clone_from_root()
                root = EN._root(n)
                nodes = A.inorder(root)
            parent, grand = n.parent, n.parent.parent
            gp_side = None if grand is None else ("left" if grand.left is parent else "right")
            before = [id(x) for x in nodes]
            res = rule.apply_to(n).result
            ctx.count("rule-rotations")
            ctx.nontriv(("regroup", case["text"], k, via_clone))
            det = {"tree": case["text"], "node_index": k, "via_clone_from_root": via_clone}
            if res is not n:
                return ctx.fail(("regroup", "result-is-not-the-rotated-node"), case, det)
            new_root = n if grand is None else root
            top = n
            hops = 0
            while top.parent is not None and hops < 10000:
                top = top.parent
                hops += 1
            if top is not new_root:
                return ctx.fail(("regroup", "root"), case, det)
            aud = A.audit(new_root)
            if aud is not None:
                return ctx.fail(("regroup", "links"), case, {**det, "audit": str(aud)[:200]})
            if [id(x) for x in A.inorder(new_root)] != before:
                return ctx.fail(("regroup", "inorder"), case, det)
            if n.parent is not grand or (grand is not None and getattr(grand, gp_side) is not n):
                return ctx.fail(("regroup", "grandparent"), case, det)
            if parent.parent is not n:
                return ctx.fail(("regroup", "parent-below"), case, det)
    ctx.sample({"text": case["text"], "kind": "regroup"}, cap=3)


def replay(ctx, case):
    if "text" in case:
        return check_regroup(ctx, case)
    check_rotation(ctx, case)


def run(ctx):
    max_n = 8 if ctx.tier == "quick" else 10
    for n in range(1, max_n + 1):
        for i, sh in enumerate(S.shapes_exact(n)):
            if i % ctx.nshards != ctx.shard:
                continue
            text = S.to_text(sh)
            for family in ("plain", "math"):
                for idx in range(n):
                    ctx.count("evaluations")
                    check_rotation(ctx, {"shape": text, "family": family, "rotate": [idx]})
    max_t = 6 if ctx.tier == "quick" else 8
    for n in range(1, max_t + 1):
        for i, sh in enumerate(S.shapes_exact(n)):
            if i % ctx.nshards != ctx.shard:
                continue
            text = S.to_text(sh)
            for family in ("plain", "math"):
                for side in ("L", "R"):
                    for idx in range(2 * n + 1):
                        ctx.count("evaluations")
                        check_rotation(ctx, {"shape": text, "family": family, "rotate": [idx], "twin": side})
    ctx.info["exhaustive"] = True
    ctx.info["exhaustive_bound"] = (
        f"all shapes with <= {max_n} nodes x every node, both class families (single rotation); "
        f"all shapes with <= {max_t} nodes joined with their own clone (equal ids in both halves) x every node of the {2 * max_t + 1}-node tree"
    )
    from hypothesis import strategies as st

    strat = st.builds(
        lambda s, f, r, t: {"shape": s, "family": f, "rotate": r, **({"twin": t} if t else {})},
        S.shape_strategy(60, 2),
        st.sampled_from(["plain", "math"]),
        st.lists(st.integers(0, 120), min_size=1, max_size=6),
        st.sampled_from([None, None, "L", "R"]),
    )
    hyp_run(ctx, "random-rotation-sequences", strat, check_rotation, ctx.n(1500, 8000))
    # the associative regrouping rule is a rotation (anchored in rules/associative_swap.py): every applicable node of the
    # regrouping templates in every context, of small exhaustive expressions, and of drawn trees
    from . import gen as G

    texts = G.sweep_texts(["AG", "CA", "DF"]) + [t for t in G.small_expressions(3) if t.count("+") >= 2 or t.count("*") >= 2]
    step = 4 if ctx.tier == "quick" else 1
    for i, t in enumerate(texts):
        if i % step != ctx.seed % step or (i // step) % ctx.nshards != ctx.shard:
            continue
        ctx.count("evaluations")
        check_regroup(ctx, {"text": t})
    hyp_run(ctx, "regroup", G.tree_text(14).map(lambda t: {"text": t}), check_regroup, ctx.n(800, 6000))
