"""C09 — any sequence of rewrites keeps the expression equivalent to the original."""
from hypothesis import strategies as st

from . import audit as A
from . import engine as E
from . import equiv as Q
from . import exact as X
from . import gen as G
from .c04 import roundtrip_problem
from .runner import hyp_settings

PROP = "C09"
LEVEL = "exploration"
RULE = (
    "Hypothesis rule-based state machine: initialize with a G-tree start text (grammar ASTs, rule templates, repository "
    "examples; expressions and equations), then up to 12 (quick) / 30 (thorough) steps, each drawing a rule instance and "
    "an index into the current list of applicable nodes and applying it on a clone_from_root copy; invariants after every "
    "step: link/arity audit clean, str(root) re-parses to the same meaning, the new root is equivalent to its predecessor "
    "(exact value at 8 fixed assignments or within fold tolerance; same computed solutions for equations) and hence to the "
    "start, every earlier root's identity signature is unchanged and no node object is shared between two states, "
    "can_apply_to raises nowhere on the reached tree, apply_to does not raise where can_apply_to said yes; non-trivial = "
    ">= 3 applied steps using >= 2 different rules; distinct by (start text, step list)"
)
ASSUMPTIONS = [
    "a walk ends (counted) when a NaN/inf constant appears or the tree exceeds 80 nodes",
    "equivalence is checked step by step (each step against its predecessor), which implies equivalence with the start",
]
MAX_NODES = 80


class Walk:
    def __init__(self, ctx, text):
        self.ctx = ctx
        self.text = text
        self.steps = []
        self.applied = []
        self.root = E.parse(text)
        self.dead = self.root is None or X.has_nonfinite(self.root) or E.has_huge_constant(self.root)
        self.states = []
        self.owner = {}
        self.failed = False
        if not self.dead:
            if A.audit(self.root) is not None:
                self.dead = True
            else:
                self._record(self.root)

    def case(self):
        return {"text": self.text, "steps": [list(s) for s in self.steps]}

    def fail(self, bucket, detail):
        self.failed = True
        detail = dict(detail)
        detail["trajectory"] = [E.text_of(r) for r, _ in self.states][-6:]
        self.ctx.fail(bucket, self.case(), detail)
        return False

    def _record(self, root):
        idx = len(self.states)
        for n in A.preorder(root):
            if id(n) in self.owner:
                return self.owner[id(n)]
            self.owner[id(n)] = idx
        self.states.append((root, A.idsig(root)))
        return None

    def step(self, rule_name, choice):
        if self.dead or self.failed:
            return True
        self.steps.append((rule_name, choice))
        rule = dict(E.rules())[rule_name]
        root = self.root
        nodes = A.inorder(root)
        # can_apply_to must not raise anywhere on a reached tree (all rules)
        for rn, r in E.rules():
            for n in nodes:
                try:
                    r.can_apply_to(n)
                except Exception as e:
                    return self.fail(("can_apply_to-raised", rn) + E.exc_site(e), {"tree": E.text_of(root), "node": E.text_of(n), "error": repr(e)[:200]})
        cands = [n for n in nodes if rule.can_apply_to(n)]
        if not cands:
            # fall back to the next rule (cyclically) that applies somewhere, so walks do not stall
            names = E.RULE_NAMES
            start = names.index(rule_name)
            for off in range(1, len(names)):
                alt = names[(start + off) % len(names)]
                r2 = dict(E.rules())[alt]
                c2 = [n for n in nodes if r2.can_apply_to(n)]
                if c2:
                    rule_name, rule, cands = alt, r2, c2
                    break
        if not cands:
            self.ctx.count("steps_without_applicable_node")
            return True
        node = cands[choice % len(cands)]
        ap = E.apply(rule, node)
        self.ctx.count("steps_applied")
        self.ctx.count(f"applied:{rule_name}:{ap.arrangement}")
        det = {"step": len(self.steps) - 1, "rule": rule_name, "arrangement": ap.arrangement, "tree": E.text_of(root), "node": E.text_of(node)}
        if ap.error is not None:
            det["error"] = repr(ap.error)[:200]
            return self.fail(("apply-raised", rule_name, ap.arrangement) + E.exc_site(ap.error), det)
        if ap.result_root is None:
            return self.fail(("apply-result-type", rule_name), det)
        new = ap.result_root
        det["result"] = E.text_of(new)
        # the rewrite depends on the tree only: a newly constructed rule object must produce the same tree as the
        # long-lived one that has seen every earlier state of this walk (clones keep node ids)
        fresh_rule = dict(E.rule_instances())[rule_name]
        try:
            ok2 = fresh_rule.can_apply_to(node)
        except Exception:
            ok2 = True
        if ok2:
            ap2 = E.apply(fresh_rule, node)
            if ap2.error is None and ap2.result_root is not None and A.sig(ap2.result_root) != A.sig(new):
                det["fresh_instance_result"] = E.text_of(ap2.result_root)
                return self.fail(("rewrite-depends-on-history", rule_name, ap.arrangement), det)
        else:
            return self.fail(("applicability-depends-on-history", rule_name), det)
        aud = A.audit(new)
        if aud is not None:
            det["audit"] = aud
            return self.fail(("malformed", rule_name, ap.arrangement), det)
        if X.has_nonfinite(new) or E.has_huge_constant(new):
            self.ctx.count("walks_ended_nonfinite")
            self.dead = True
            return True
        # earlier states untouched, nothing shared
        for i, (r, snap) in enumerate(self.states):
            if A.idsig(r) != snap:
                det["altered_state"] = i
                return self.fail(("earlier-state-altered", rule_name, ap.arrangement), det)
        shared = self._record(new)
        if shared is not None:
            det["shares_nodes_with_state"] = shared
            return self.fail(("states-share-nodes", rule_name, ap.arrangement), det)
        # printing round trip
        p = roundtrip_problem(new)
        if p is not None:
            det.update(p[1])
            return self.fail(("print-" + p[0], rule_name), det)
        # equivalence with the predecessor
        vs = A.variables(root) | A.variables(new)
        assigns = G.assignments(vs, 8)
        try:
            if Q.is_equation(root):
                verdict, info = Q.compare_equations(self.ctx, root, new, ap.fresh_consts, assigns[:6], balanced_move=(rule_name == "BM"))
            else:
                verdict, info = Q.compare_expressions(self.ctx, root, new, ap.fresh_consts, assigns)
                if verdict == "kind":
                    verdict = "equation-kind-changed"
                elif verdict == "mismatch":
                    verdict = "value"
        except X.Malformed:
            return self.fail(("unevaluable", rule_name), det)
        if verdict != "ok":
            det.update(info)
            return self.fail(("not-equivalent", verdict, rule_name, ap.arrangement), det)
        w = E.evaluate_disagrees(new)
        if w is not None and E.evaluate_disagrees(root) is None:
            det.update(w)
            return self.fail(("evaluate-disagrees-with-structure", rule_name, ap.arrangement), det)
        self.root = new
        self.applied.append(rule_name)
        if len(A.preorder(new)) > MAX_NODES or E.has_huge_constant(new):
            self.ctx.count("walks_ended_size")
            self.dead = True
        return True

    def finish(self):
        if self.failed:
            return
        self.ctx.count("walks")
        self.ctx.count("walk_length", len(self.applied))
        if len(self.applied) >= 3 and len(set(self.applied)) >= 2:
            self.ctx.nontriv((self.text, tuple(self.steps)))
        if self.applied:
            self.ctx.sample({"start": self.text, "steps": [list(s) for s in self.steps], "trajectory": [E.text_of(r) for r, _ in self.states]}, cap=6)


def replay(ctx, case):
    w = Walk(ctx, case["text"])
    for rn, ch in case["steps"]:
        if not w.step(rn, ch):
            return
    w.finish()


def run(ctx):
    # deterministic walks from the template sweep: every rule template x coefficient coincidence as a START, followed by a
    # fixed schedule of rules (so sequences also begin in the corners that random starts rarely reach)
    texts = G.sweep_texts()
    step = 6 if ctx.tier == "quick" else 1
    for i, t in enumerate(texts[::step]):
        if i % ctx.nshards != ctx.shard:
            continue
        ctx.count("evaluations")
        ctx.count("sweep:walks")
        w = Walk(ctx, t)
        for k in range(6):
            if not w.step(E.RULE_NAMES[(i + 3 * k) % len(E.RULE_NAMES)], i + k):
                break
        w.finish()
    # the same schedule from near-miss starts (one edit away from a rule template)
    near = G.neighbour_texts()
    nstep = 12 if ctx.tier == "quick" else 1
    for i, t in enumerate(near):
        if i % nstep != ctx.seed % nstep or (i // nstep) % ctx.nshards != ctx.shard:
            continue
        ctx.count("evaluations")
        ctx.count("near-miss:walks")
        w = Walk(ctx, t)
        for k in range(6):
            if not w.step(E.RULE_NAMES[(i + 3 * k) % len(E.RULE_NAMES)], i + k):
                break
        w.finish()
    from hypothesis import seed, settings
    from hypothesis.stateful import RuleBasedStateMachine, initialize, rule, run_state_machine_as_test

    class Machine(RuleBasedStateMachine):
        def __init__(self):
            super().__init__()
            self.w = None

        @initialize(text=G.tree_text(10))
        def start(self, text):
            ctx.count("evaluations")
            self.w = Walk(ctx, text)

        @rule(rn=st.sampled_from(E.RULE_NAMES), choice=st.integers(0, 40))
        def rewrite(self, rn, choice):
            if self.w is not None:
                self.w.step(rn, choice)

        def teardown(self):
            if self.w is not None:
                self.w.finish()

    base = hyp_settings(ctx, ctx.n(1500, 5000))
    stg = settings(base, stateful_step_count=12 if ctx.tier == "quick" else 30)
    run_state_machine_as_test(seed(ctx.hseed("walks"))(Machine), settings=stg)
