"""C04 — printing an expression and parsing it back preserves its meaning."""
import itertools

from . import audit as A
from . import engine as E
from . import exact as X
from . import gen as G
from .runner import hyp_run

PROP = "C04"
LEVEL = "exploration"
EVALUATION_COUNTER = "roundtrips"
RULE = (
    "trees from (1) an exhaustive template sweep: every (outer operator, inner operator or negation, side) nesting "
    "of depth 2 over 6 leaf kinds and every depth-3 operator nesting, rendered with explicit parentheses and parsed; "
    "(2) G-tree trees (grammar strings, rule templates, 0-6 pre-rewrites) and every single rule application on them; "
    "oracle: str(T) is accepted by the parser and the re-parsed tree has the same variable set and exactly the same "
    "exact rational value at 6 assignments (side values, in order or swapped, for equations); non-trivial = some "
    "operator has a non-leaf operand (a grouping decision is needed); distinct by structural signature of T"
)
ASSUMPTIONS = [
    "finite constants only (the property says so)",
    "printing involves no rounding: ints print exactly and floats print as the shortest round-tripping decimal, so values are compared exactly",
]


def _values(root, a):
    try:
        r = X.try_eval(root, a)
    except X.NonFinite:
        return "nonfinite"
    return None if r is None else (r.value, r.inexact)


def roundtrip_problem(T):
    """None when str(T) re-parses to the same meaning, else (kind, info)."""
    from mathy_core.parser import ExpressionParser

    try:
        s = str(T)
    except Exception as e:
        return ("print-raised", {"error": repr(e)})
    try:
        R = ExpressionParser().parse(s)
    except E.parse_errors() as e:
        return ("reparse-rejected", {"printed": s, "error": type(e).__name__})
    except Exception as e:
        return ("reparse-internal-error", {"printed": s, "error": repr(e)[:200]})
    if A.variables(R) != A.variables(T):
        return ("variables-differ", {"printed": s, "before": sorted(A.variables(T)), "after": sorted(A.variables(R))})
    for a in G.assignments(A.variables(T), 6):
        vt = _values(T, a)
        vr = _values(R, a)
        if vt == "nonfinite" or vr == "nonfinite":
            return None
        if vt is None and vr is None:
            continue
        if vt is None or vr is None:
            return ("reparse-value", {"printed": s, "reparsed_as": E.text_of(R), "assignment": G.show_assignment(a), "tree_value": None if vt is None else str(vt[0]), "reparsed_value": None if vr is None else str(vr[0])})
        x, y = vt[0], vr[0]
        if x == y:
            continue
        if isinstance(x, tuple) and isinstance(y, tuple):
            # equations (and chains a = b = c): the same sides, in any order and grouping, mean the same solution set
            from .equiv import sides_of

            if sorted(sides_of(x)) == sorted(sides_of(y)):
                continue
        if (vt[1] or vr[1]) and not isinstance(x, tuple) and not isinstance(y, tuple) and abs(x - y) <= abs(x) / 10**9:
            continue
        return ("reparse-value", {"printed": s, "reparsed_as": E.text_of(R), "assignment": G.show_assignment(a), "tree_value": str(x), "reparsed_value": str(y)})
    return None


def culprit(T):
    """Lowest node whose detached clone fails the round trip while its operands' clones pass:
    names the (parent kind, child kinds) pair for bucketing by root cause."""
    node = T
    while True:
        nxt = None
        for c in (node.left, node.right):
            if c is not None and (c.left is not None or c.right is not None):
                try:
                    if roundtrip_problem(c.clone()) is not None:
                        nxt = c
                        break
                except Exception:
                    pass
        if nxt is None:
            break
        node = nxt

    def k2(n, deep=True):
        if n is None:
            return "-"
        k = A.kind(n).replace("Expression", "")
        if k == "Constant":
            try:
                return "negconst" if X.const_value(n.value) < 0 else "leaf"
            except Exception:
                return "leaf"
        if k == "Variable":
            return "leaf"
        if k in ("Negate", "Factorial", "Sgn", "Abs") and deep:
            ch = n.left if n.left is not None else n.right
            return k + "(" + k2(ch, False) + ")"
        return k

    return f"{A.kind(node).replace('Expression', '')}[{k2(node.left)},{k2(node.right)}]"


def check_tree_obj(ctx, T, case, origin):
    if X.has_nonfinite(T):
        ctx.count("excluded_nonfinite")
        return True
    if E.has_unprintable_constant(T):
        ctx.count("excluded_unprintable_constant")
        return True
    ctx.count("roundtrips")
    if A.needs_grouping(T):
        ctx.nontriv(A.sig(T))
    p = roundtrip_problem(T)
    if p is None:
        return True
    kind_, info = p
    info["tree"] = E.text_of(T)
    info["origin"] = origin
    try:
        where = culprit(T)
    except Exception:
        where = "?"
    info["culprit"] = where
    ctx.fail((kind_, where.split("[")[0]), case, info)
    return False


LEAVES = ["x", "2", "-3", "0.5", "4y", "z^2", "3!", "sgn(x)", "0.00001", "12345678901234567890123.5"]
CORE = ["x", "2", "-3", "4y", "z^2"]
OPS = ["+", "-", "*", "/", "^"]


def sweep_cases():
    """Explicitly parenthesised nestings: the 'parent kind x child kind x side' table."""
    out = []
    inner_forms = [lambda a, b, o=o: f"({a}) {o} ({b})" for o in OPS] + [lambda a, b: f"-({a})", lambda a, b: f"sgn({a})"]
    for outer in OPS:
        for fi, inner in enumerate(inner_forms):
            for a, b in itertools.product(LEAVES, CORE):
                if fi >= len(OPS) and b != CORE[0]:
                    continue
                I = inner(a, b)
                for c in CORE:
                    out.append(f"({I}) {outer} ({c})")
                    out.append(f"({c}) {outer} ({I})")
    # negation of everything, negation as operand
    for o in OPS:
        for a, b in itertools.product(LEAVES, LEAVES):
            out.append(f"-(({a}) {o} ({b}))")
            out.append(f"(-({a})) {o} ({b})")
            out.append(f"({a}) {o} (-({b}))")
            out.append(f"-(-(({a}) {o} ({b})))")
    for a in LEAVES:
        out += [f"-({a})", f"-(-({a}))", f"-(-(-({a})))", f"sgn(-({a}))", f"-(sgn({a}))", f"x(-({a}))", f"(-({a}))(y)", f"2(-({a}))"]
    # depth 3
    for o1, o2, o3 in itertools.product(OPS, OPS, OPS):
        for shape in range(5):
            a, b, c, d = "x", "3", "y", "2"
            if shape == 0:
                s = f"((({a}) {o1} ({b})) {o2} ({c})) {o3} ({d})"
            elif shape == 1:
                s = f"(({a}) {o1} (({b}) {o2} ({c}))) {o3} ({d})"
            elif shape == 2:
                s = f"(({a}) {o1} ({b})) {o3} (({c}) {o2} ({d}))"
            elif shape == 3:
                s = f"({a}) {o3} ((({b}) {o1} ({c})) {o2} ({d}))"
            else:
                s = f"({a}) {o3} (({b}) {o1} (({c}) {o2} ({d})))"
            out.append(s)
            out.append(f"-({s})")
    for o1, o2 in itertools.product(OPS, OPS):
        out.append(f"(-((x) {o1} (z))) {o2} (y)")
        out.append(f"(y) {o2} (-((x) {o1} (z)))")
        out.append(f"(2) {o1} ((x) = (y))" if False else f"(x) {o1} (y) = (z) {o2} (2)")
        out.append(f"(4x) {o1} ((2y) {o2} (3z^2))")
        out.append(f"((4x) {o1} (2y)) {o2} (3z^2)")
    return sorted(set(out))


BIG_FOLDS = [
    "94906267 * 94906267 + x", "3^34", "3^40 - 1", "7^20 * x", "99999999 * 99999999", "123456789 * 987654321", "x + 3^35 * 2", "(3^34)x", "y = 5^25 + x",
    "9007199254 * 1000001", "2^53 + 1", "(2^53 + 1) * x", "x^(3^34)", "-(3^34)", "6^21 / x", "0.5 * 3^34", "10^22 + 1", "10^23", "x - 11^16",
]


def check_sweep_string(ctx, case):
    T = E.parse(case["text"])
    if T is None:
        ctx.count("sweep:rejected-text")
        return
    ctx.sample({"text": case["text"], "printed": E.text_of(T)}, cap=6)
    check_tree_obj(ctx, T, case, "sweep")


def check_tree(ctx, case):
    if case.get("sweep"):
        return check_sweep_string(ctx, case)
    root = E.build_tree(ctx, case)
    if root is None:
        return
    ctx.count("trees")
    ctx.sample({"text": case["text"], "pre": case.get("pre"), "printed": E.text_of(root)})
    if not check_tree_obj(ctx, root, case, "g-tree"):
        return
    if A.audit(root) is not None or E.has_huge_constant(root):
        return
    for name, rule in E.rules():
        for n in A.inorder(root):
            try:
                if not rule.can_apply_to(n):
                    continue
            except Exception:
                continue
            ap = E.apply(rule, n)
            # (a result is only printed and re-read, never searched by the rules again: constants beyond 10^10 are fine here;
            # constants too long to print are excluded inside check_tree_obj)
            if ap.error is not None or ap.result_root is None or A.audit(ap.result_root) is not None:
                ctx.count("skipped:bad-application(C06/C07)")
                continue
            ctx.count(f"applied:{name}:{ap.arrangement}")
            if not check_tree_obj(ctx, ap.result_root, case, f"after {name}:{ap.arrangement} at {E.text_of(n)}"):
                return


def check_inplace(ctx, case):
    """Printing is a function of the tree as it is NOW: along an in-place rewrite sequence every node is printed before every
    step (so anything a node remembers about its text is there), and after the step the whole tree must still print text that
    re-reads as the tree (and as a never-printed copy prints)."""
    root = E.parse(case["text"])
    if root is None or X.has_nonfinite(root) or E.has_huge_constant(root):
        return
    rules = E.rule_instances()
    ctx.count("inplace:walks")
    for ri, ni in case["steps"]:
        nodes = A.inorder(root)
        for n in nodes:
            try:
                str(n)
            except Exception:
                pass
        name, rule = rules[ri % len(rules)]
        try:
            cands = [n for n in nodes if rule.can_apply_to(n)]
        except Exception:
            return
        if not cands:
            continue
        n = cands[ni % len(cands)]
        where = E.text_of(n)
        arrangement = E.arrangement(rule, n)
        try:
            root = E._root(rule.apply_to(n).result)
        except Exception:
            ctx.count("skipped:bad-application(C06/C07)")
            return
        if A.audit(root) is not None or X.has_nonfinite(root) or E.has_huge_constant(root):
            ctx.count("skipped:bad-application(C06/C07)")
            return
        ctx.count(f"inplace-applied:{name}:{arrangement}")
        try:
            fresh_text = str(root.clone())
        except Exception:
            fresh_text = None
        if fresh_text is not None and str(root) != fresh_text:
            return ctx.fail(("print-depends-on-history", name), case, {"tree_printed": str(root)[:200], "never_printed_copy": fresh_text[:200], "after": f"{name}:{arrangement} at {where} (in place)"})
        if not check_tree_obj(ctx, root, case, f"after {name}:{arrangement} at {where} (in place)"):
            return


def replay(ctx, case):
    if "steps" in case:
        return check_inplace(ctx, case)
    check_tree(ctx, case)


def run(ctx):
    cases = sweep_cases()
    for i, s in enumerate(cases):
        if i % ctx.nshards != ctx.shard:
            continue
        ctx.count("evaluations")
        ctx.count("sweep:cases")
        check_sweep_string(ctx, {"text": s, "sweep": True})
    ctx.info["sweep_size"] = len(cases)
    ctx.info["sweep_exhaustive_within"] = "depth-2 nestings over 8x5x5 leaf kinds, negation nestings, depth-3 operator nestings"
    # rule outputs from the deterministic template corners: every rule template x coefficient coincidence, and every text
    # one edit away from a template, parsed, every applicable rule applied at every node, each result printed and re-read
    # folds that produce integers no double can hold (the printed digits must all be read back)
    for i, t in enumerate(BIG_FOLDS):
        if i % ctx.nshards == ctx.shard:
            ctx.count("evaluations")
            ctx.count("big-fold:cases")
            check_tree(ctx, {"text": t, "pre": []})
    texts = G.sweep_texts() + G.neighbour_texts()
    step = 4 if ctx.tier == "quick" else 1
    for i, t in enumerate(texts):
        if i % step != ctx.seed % step or (i // step) % ctx.nshards != ctx.shard:
            continue
        ctx.count("evaluations")
        ctx.count("template-corners:cases")
        check_tree(ctx, {"text": t, "pre": []})
    ctx.info["template_corner_texts"] = f"{len(texts)} texts (template sweep + one-edit neighbours); every {step}th in this tier"
    hyp_run(ctx, "g-tree", G.tree_case(12 if ctx.tier == "quick" else 24, max_pre=6), check_tree, ctx.n(1200, 10000))
    # in-place sequences, every node printed before every step
    istep = 8 if ctx.tier == "quick" else 1
    for i, t in enumerate(texts):
        if i % istep != ctx.seed % istep or (i // istep) % ctx.nshards != ctx.shard:
            continue
        ctx.count("evaluations")
        check_inplace(ctx, {"text": t, "steps": [[(i + 3 * k) % 11, i + k] for k in range(5)]})
    from hypothesis import strategies as st

    walk = st.builds(lambda t, steps: {"text": t, "steps": steps}, G.tree_text(12), st.lists(st.tuples(st.integers(0, 10), st.integers(0, 40)).map(list), min_size=2, max_size=6))
    hyp_run(ctx, "in-place", walk, check_inplace, ctx.n(500, 4000))
