"""C13 — cloning yields an identical, independent tree and locates the cloned node."""
from fractions import Fraction

from hypothesis import strategies as st

from . import audit as A
from . import engine as E
from . import exact as X
from . import gen as G
from . import refparse as RP
from .runner import hyp_run

PROP = "C13"
LEVEL = "exploration"
RULE = (
    "trees from the parser, from 0-4 rewrites, and from the public constructors (every node class; one-operand nodes "
    "built with the operand on either side; repeated kinds so several nodes share a path-of-kinds string); clone() of the "
    "root and of every subtree, clone_from_root() from EVERY node; oracle: equal structural signature, node ids and "
    "operand sides, zero shared objects, equal text and exact value, mutating either tree (constant value, variable "
    "name, child swap, subtree replacement) leaves the other's identity signature unchanged; clone_from_root returns "
    "a node at the same left/right path with the same id inside a structurally equal full copy, original untouched and "
    "scratch fields reset; non-trivial = >= 2 nodes of one class at different positions, or a left-operand unary node; "
    "distinct by (text, pre, builder)"
)
ASSUMPTIONS = []


def ids_sig(n):
    if n is None:
        return None
    return (A.kind(n), A.payload(n), n.id, getattr(n, "child_on_left", None), ids_sig(n.left), ids_sig(n.right))


def objset(root):
    return {id(n) for n in A.preorder(root)}


def build(ctx, case):
    if case.get("build") == "ctor":
        from .c05 import build_ctor

        try:
            ast = RP.parse(case["text"])
        except (RP.Reject, RecursionError):
            return None
        return build_ctor(ast, bool(case.get("child_on_left")))
    return E.build_tree(ctx, case)


def values(root):
    out = []
    for a in G.assignments(A.variables(root), 3):
        try:
            r = X.try_eval(root, a)
        except (X.NonFinite, X.Malformed) as e:
            r = type(e).__name__
        out.append(None if r is None else (r if isinstance(r, str) else r.value))
    return out


def check_clone_pair(ctx, case, orig, cl, where):
    det = {"where": where, "tree": E.text_of(orig)}
    if ids_sig(orig) != ids_sig(cl):
        a, b = ids_sig(orig), ids_sig(cl)
        det["clone"] = E.text_of(cl)
        what = "structure-or-payload" if A.sig(orig) != A.sig(cl) else "ids-or-operand-side"
        return ctx.fail(("clone-differs", what), case, det)
    if objset(orig) & objset(cl):
        return ctx.fail(("clone-shares-nodes",), case, det)
    aud = A.audit(cl) if cl.parent is None else None
    if aud is not None:
        det["audit"] = aud
        return ctx.fail(("clone-malformed",), case, det)
    # one-operand nodes: get_child() must be the copied child
    for n in A.preorder(cl):
        if A.kind(n) in A.UNARY:
            ch = n.left if n.left is not None else n.right
            if ch is not None and n.get_child() is not ch:
                return ctx.fail(("clone-operand-side",), case, det)
    t1, t2 = E.text_of(orig), E.text_of(cl)
    if t1 != t2:
        det["clone_text"] = t2
        return ctx.fail(("clone-prints-differently",), case, det)
    if orig.parent is None and values(orig) != values(cl):
        return ctx.fail(("clone-evaluates-differently",), case, det)
    return True


def mutate(root, mode):
    """In-place change of a tree; returns a description or None if nothing to do."""
    nodes = A.preorder(root)
    consts = [n for n in nodes if A.kind(n) == "ConstantExpression"]
    vars_ = [n for n in nodes if A.kind(n) == "VariableExpression"]
    bins = [n for n in nodes if A.kind(n) in A.BINARY]
    if mode == 0 and consts:
        consts[len(consts) // 2].value = 987654
        return "constant value"
    if mode == 1 and vars_:
        vars_[len(vars_) // 2].identifier = "q"
        return "variable name"
    if mode == 2 and bins:
        b = bins[len(bins) // 2]
        l, r = b.left, b.right
        b.set_left(r)
        b.set_right(l)
        return "child swap"
    if mode == 3 and bins:
        from mathy_core.expressions import ConstantExpression

        b = bins[0]
        b.set_right(ConstantExpression(42))
        return "subtree replacement"
    if mode == 4:
        for n in nodes:
            n.id = "changed-" + str(n.id)
        return "ids"
    return None


def check_tree(ctx, case):
    root = build(ctx, case)
    if root is None:
        return
    nodes = A.preorder(root)
    if len(nodes) > 80:
        return
    ctx.count("trees")
    kinds = [A.kind(n) for n in nodes]
    if len(kinds) != len(set(kinds)) or any(getattr(n, "child_on_left", False) for n in nodes):
        ctx.nontriv((case["text"], repr(case.get("pre")), case.get("build"), case.get("child_on_left")))
    ctx.sample({"text": case["text"], "build": case.get("build", "parser"), "child_on_left": case.get("child_on_left"), "tree": E.text_of(root)})
    before = A.idsig(root)
    # clone() of the root and of every subtree
    try:
        cl = root.clone()
    except Exception as e:
        return ctx.fail(("clone-raised",) + E.exc_site(e), case, {"error": repr(e)[:200]})
    ctx.count("clones")
    if check_clone_pair(ctx, case, root, cl, "root") is not True:
        return
    for n in nodes[1:6]:
        try:
            sub = n.clone()
        except Exception as e:
            return ctx.fail(("clone-raised",) + E.exc_site(e), case, {"error": repr(e)[:200]})
        ctx.count("clones")
        if ids_sig(n) != ids_sig(sub) or objset(n) & objset(sub):
            return ctx.fail(("subtree-clone-differs",), case, {"subtree": E.text_of(n)})
    if A.idsig(root) != before:
        return ctx.fail(("clone-modified-original",), case, {})
    # independence, both directions
    for mode in range(5):
        c2 = root.clone()
        snap_o, snap_c = A.idsig(root), A.idsig(c2)
        what = mutate(c2, mode)
        if what is not None and A.idsig(root) != snap_o:
            return ctx.fail(("mutating-clone-changed-original", what), case, {})
        o2 = root.clone()  # stand-in original we are allowed to damage
        c3 = o2.clone()
        snap_c3 = A.idsig(c3)
        what = mutate(o2, mode)
        if what is not None and A.idsig(c3) != snap_c3:
            return ctx.fail(("mutating-original-changed-clone", what), case, {})
        ctx.count("independence_checks")
    # clone_from_root from every node
    full_sig = ids_sig(root)
    for n in nodes:
        path = A.path_of(n)
        try:
            c = n.clone_from_root()
        except Exception as e:
            return ctx.fail(("clone_from_root-raised",) + E.exc_site(e)[:1], case, {"node": E.text_of(n), "path": path, "error": repr(e)[:200]})
        ctx.count("clone_from_root_calls")
        det = {"node": E.text_of(n), "path": path}
        if c is None or not hasattr(c, "parent"):
            return ctx.fail(("clone_from_root-returned-no-node",), case, det)
        croot = c
        hops = 0
        while croot.parent is not None and hops < 10000:
            croot = croot.parent
            hops += 1
        if ids_sig(croot) != full_sig:
            return ctx.fail(("clone_from_root-tree-differs",), case, det)
        if A.follow(croot, path) is not c:
            try:
                det["returned_path"] = A.path_of(c)
            except RuntimeError:
                det["returned_path"] = "(the returned node is not reachable from the root it points to)"
            return ctx.fail(("clone_from_root-wrong-node",), case, det)
        if c.id != n.id or A.kind(c) != A.kind(n):
            return ctx.fail(("clone_from_root-wrong-id",), case, det)
        if objset(croot) & objset(root):
            return ctx.fail(("clone_from_root-shares-nodes",), case, det)
        if A.audit(croot) is not None:
            det["audit"] = A.audit(croot)
            return ctx.fail(("clone_from_root-malformed",), case, det)
        if A.idsig(root) != before:
            return ctx.fail(("clone_from_root-modified-original",), case, det)
        for m in nodes:
            # scratch fields of the current implementation, if it still has them
            if getattr(m, "cloned_node", None) is not None or getattr(m, "cloned_target", None):
                return ctx.fail(("clone_from_root-scratch-not-reset",), case, det)


def check_results_of_rewrites(ctx, case):
    """clone() of every single-rewrite result of the case's tree (payload kinds such as numpy scalars, stale
    operand caches and duplicated ids only exist after rewrites)."""
    root = E.build_tree(ctx, case)
    if root is None or len(A.preorder(root)) > 60:
        return
    for name, rule in E.rules():
        for n in A.inorder(root):
            try:
                if not rule.can_apply_to(n):
                    continue
            except Exception:
                continue
            ap = E.apply(rule, n)
            if ap.error is not None or ap.result_root is None or A.audit(ap.result_root) is not None:
                continue
            res = ap.result_root
            ctx.count("rewrite_results_cloned")
            try:
                cl = res.clone()
            except Exception as e:
                return ctx.fail(("clone-raised",) + E.exc_site(e), case, {"after": f"{name} at {E.text_of(n)}", "error": repr(e)[:200]})
            if check_clone_pair(ctx, case, res, cl, f"result of {name}:{ap.arrangement} at {E.text_of(n)}") is not True:
                return
            inner = A.preorder(res)
            if len(inner) > 1:
                pick = inner[len(inner) // 2]
                try:
                    c = pick.clone_from_root()
                except Exception as e:
                    return ctx.fail(("clone_from_root-raised",) + E.exc_site(e)[:1], case, {"after": f"{name} at {E.text_of(n)}", "error": repr(e)[:200]})
                try:
                    same_place = c is not None and hasattr(c, "parent") and c.id == pick.id and A.path_of(c) == A.path_of(pick) and A.follow(E._root(c), A.path_of(pick)) is c
                except RuntimeError:
                    same_place = False
                if not same_place:
                    return ctx.fail(("clone_from_root-wrong-node",), case, {"after": f"{name} at {E.text_of(n)}", "node": E.text_of(pick)})


def check_inplace(ctx, case):
    """Cloning after the tree CHANGED under its nodes: every node is asked for clone_from_root() (and get_root()) first, a
    rule is applied in place - which may put the surviving nodes under a new root - and every node of the tree as it is now
    is asked again: the copy must be a copy of the current whole tree with the returned node at the asking node's position."""
    root = E.parse(case["text"])
    if root is None or len(A.preorder(root)) > 40 or E.has_huge_constant(root):
        return
    rules = E.rule_instances()
    ctx.count("inplace:walks")
    for ri, ni in case["steps"]:
        nodes = A.inorder(root)
        for n in nodes:
            try:
                n.get_root()
                n.clone_from_root()
            except Exception:
                pass
        name, rule = rules[ri % len(rules)]
        try:
            cands = [n for n in nodes if rule.can_apply_to(n)]
        except Exception:
            return
        if not cands:
            continue
        n = cands[ni % len(cands)]
        where = f"{name} at {E.text_of(n)} (in place)"
        try:
            root = E._root(rule.apply_to(n).result)
        except Exception:
            return
        if A.audit(root) is not None or E.has_huge_constant(root):
            return
        ctx.count("inplace:rewrites")
        full = ids_sig(root)
        for m in A.preorder(root):
            path = A.path_of(m)
            try:
                c = m.clone_from_root()
            except Exception as e:
                return ctx.fail(("clone_from_root-raised",) + E.exc_site(e)[:1], case, {"after": where, "node": E.text_of(m), "error": repr(e)[:200]})
            ctx.count("clone_from_root_calls")
            det = {"after": where, "node": E.text_of(m), "path": path, "tree_now": E.text_of(root)}
            if c is None or not hasattr(c, "parent"):
                return ctx.fail(("clone_from_root-returned-no-node",), case, det)
            try:
                croot = E._root(c)
            except RuntimeError:
                return ctx.fail(("clone_from_root-malformed",), case, det)
            if ids_sig(croot) != full:
                det["copied_tree"] = E.text_of(croot)
                return ctx.fail(("clone_from_root-tree-differs", "after-in-place-rewrite"), case, det)
            if A.follow(croot, path) is not c or c.id != m.id:
                return ctx.fail(("clone_from_root-wrong-node", "after-in-place-rewrite"), case, det)
            if m.get_root() is not root:
                return ctx.fail(("get_root-stale", "after-in-place-rewrite"), case, det)
        ctx.nontriv(("inplace", case["text"], repr(case["steps"])))


def replay(ctx, case):
    if "steps" in case:
        return check_inplace(ctx, case)
    check_tree(ctx, case)
    if case.get("build") != "ctor":
        check_results_of_rewrites(ctx, case)


def run(ctx):
    texts = G.sweep_texts()
    step = 3 if ctx.tier == "quick" else 1
    for i, t in enumerate(texts[::step]):
        if i % ctx.nshards != ctx.shard:
            continue
        ctx.count("evaluations")
        ctx.count("sweep:cases")
        check_results_of_rewrites(ctx, {"text": t, "pre": []})
    mx = 12 if ctx.tier == "quick" else 20
    parser_cases = G.tree_case(mx)
    ctor_texts = st.one_of(G.expr_text(mx), G.template_text(), st.sampled_from(["-x", "-(-x)", "3!", "sgn(-x) + sgn(x)", "-(x + -(y * -z))", "(x + y) + (x + y)", "-x - -x", "2^-(3!)"]))
    ctor_cases = st.builds(lambda t, col: {"text": t, "pre": [], "build": "ctor", "child_on_left": col}, ctor_texts, st.booleans())
    hyp_run(ctx, "trees", st.one_of(parser_cases, ctor_cases), check_tree, ctx.n(2500, 12000))
    hyp_run(ctx, "rewrite-results", parser_cases, check_results_of_rewrites, ctx.n(600, 4000))
    # in-place rewrites between two rounds of clone_from_root on every node
    istep = 8 if ctx.tier == "quick" else 1
    for i, t in enumerate(texts):
        if i % istep != ctx.seed % istep or (i // istep) % ctx.nshards != ctx.shard:
            continue
        ctx.count("evaluations")
        check_inplace(ctx, {"text": t, "steps": [[(i + 3 * k) % 11, i + k] for k in range(3)]})
    walk = st.builds(lambda t, steps: {"text": t, "steps": steps}, G.tree_text(10), st.lists(st.tuples(st.integers(0, 10), st.integers(0, 40)).map(list), min_size=1, max_size=4))
    hyp_run(ctx, "in-place", walk, check_inplace, ctx.n(400, 3000))
