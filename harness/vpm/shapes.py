"""G-shape: binary tree shapes. A shape is None (absent) or a pair (left, right).
Text form: '.' for absent, '(' left right ')' for a node; a leaf is '(..)'."""
import functools


@functools.lru_cache(maxsize=None)
def shapes_exact(n):
    """All shapes with exactly n nodes (every node has 0, left-only, right-only or 2 children)."""
    if n == 0:
        return (None,)
    out = []
    for k in range(n):
        for l in shapes_exact(k):
            for r in shapes_exact(n - 1 - k):
                out.append((l, r))
    return tuple(out)


@functools.lru_cache(maxsize=None)
def full_shapes_exact(n):
    """All full shapes (0 or 2 children) with exactly n nodes (n odd)."""
    if n == 1:
        return ((None, None),)
    if n % 2 == 0 or n < 1:
        return ()
    out = []
    for k in range(1, n - 1, 2):
        for l in full_shapes_exact(k):
            for r in full_shapes_exact(n - 1 - k):
                out.append((l, r))
    return tuple(out)


def _chain(k, side):
    """k nodes, each the `side` child of the previous ('L', 'R', or alternating 'Z'/'z' starting left/right)."""
    sh = None
    for i in range(k):
        if side == "L" or (side == "Z" and (k - i) % 2 == 1) or (side == "z" and (k - i) % 2 == 0):
            sh = (sh, None)
        else:
            sh = (None, sh)
    return sh


def composed_shapes():
    """Deterministic 'uneven depth' family for the layout: chains, zigzags and small bushy trees composed twice
    (node(x, y) over components, then node(u, v) over those). Contours of very different depth meet at every level of
    composition, which is where the thread/extreme bookkeeping of a tidy-tree layout is exercised; the shapes have up to
    ~25 nodes, far beyond what exhaustive enumeration reaches."""
    leaf = (None, None)
    comps = [leaf, _chain(2, "L"), _chain(2, "R"), _chain(3, "L"), _chain(3, "R"), _chain(3, "Z"), _chain(3, "z"), _chain(4, "L"), _chain(4, "R"),
             _chain(5, "L"), _chain(5, "R"), _chain(4, "Z"), _chain(4, "z"), (leaf, (leaf, leaf)), ((leaf, leaf), leaf), (None, (leaf, leaf)), ((leaf, leaf), None),
             ((leaf, leaf), (leaf, leaf))]
    level1 = []
    for a in comps + [None]:
        for b in comps + [None]:
            if a is None and b is None:
                continue
            level1.append((a, b))
    pool = comps + level1
    out = []
    seen = set()
    for a in pool:
        for b in pool:
            sh = (a, b)
            t = to_text(sh)
            if t not in seen:
                seen.add(t)
                out.append(sh)
    return out


def to_text(s):
    if s is None:
        return "."
    return "(" + to_text(s[0]) + to_text(s[1]) + ")"


def from_text(t):
    pos = 0

    def rec():
        nonlocal pos
        c = t[pos]
        pos += 1
        if c == ".":
            return None
        assert c == "(", t
        l = rec()
        r = rec()
        assert t[pos] == ")", t
        pos += 1
        return (l, r)

    s = rec()
    assert pos == len(t), t
    return s


def size(s):
    return 0 if s is None else 1 + size(s[0]) + size(s[1])


def mirror(s):
    return None if s is None else (mirror(s[1]), mirror(s[0]))


def is_full(s):
    if s is None:
        return True
    if (s[0] is None) != (s[1] is None):
        return False
    return is_full(s[0]) and is_full(s[1])


def has_one_child_node(s):
    if s is None:
        return False
    if (s[0] is None) != (s[1] is None):
        return True
    return has_one_child_node(s[0]) or has_one_child_node(s[1])


def shape_strategy(max_nodes, min_nodes=1, full=False):
    """Hypothesis strategy producing shape *texts* with min..max nodes."""
    from hypothesis import strategies as st

    @st.composite
    def exact(draw, n):
        if n == 0:
            return None
        if full:
            if n == 1:
                return (None, None)
            k = draw(st.integers(0, (n - 3) // 2)) * 2 + 1
            return (draw(exact(k)), draw(exact(n - 1 - k)))
        mode = draw(st.integers(0, 5))
        if mode == 0:
            k = 0
        elif mode == 1:
            k = n - 1
        else:
            k = draw(st.integers(0, n - 1))
        return (draw(exact(k)), draw(exact(n - 1 - k)))

    @st.composite
    def any_shape(draw):
        n = draw(st.integers(min_nodes, max_nodes))
        if full and n % 2 == 0:
            n += 1 if n < max_nodes else -1
        return to_text(draw(exact(n)))

    return any_shape()


def build(s, make):
    """Build a linked tree for shape s; make(kind) returns a fresh node, kind in
    'leaf','left','right','both'. Children are attached with set_left/set_right.
    Returns (root, nodes_in_preorder)."""
    nodes = []

    def rec(sh):
        if sh is None:
            return None
        kind = "leaf" if sh == (None, None) else "left" if sh[1] is None else "right" if sh[0] is None else "both"
        node = make(kind)
        nodes.append(node)
        l = rec(sh[0])
        r = rec(sh[1])
        if l is not None:
            node.set_left(l)
        if r is not None:
            node.set_right(r)
        return node

    root = rec(s)
    return root, nodes


# ---- naive reference traversals over the link structure (no use of the visit methods)
def naive(root, order):
    out = []

    def rec(n, d):
        if n is None:
            return
        if order == "preorder":
            out.append((n, d))
        rec(n.left, d + 1)
        if order == "inorder":
            out.append((n, d))
        rec(n.right, d + 1)
        if order == "postorder":
            out.append((n, d))

    rec(root, 0)
    return out


def link_audit(root, expected_nodes=None):
    """Return None when links are consistent, else a description."""
    if root.parent is not None:
        return "root has a parent"
    seen = set()
    stack = [root]
    while stack:
        n = stack.pop()
        if id(n) in seen:
            return "node reachable twice"
        seen.add(id(n))
        for side in ("left", "right"):
            c = getattr(n, side)
            if c is not None:
                if c.parent is not n:
                    return f"child on {side} has wrong parent"
                stack.append(c)
        if len(seen) > 100000:
            return "cycle"
    if expected_nodes is not None and seen != {id(x) for x in expected_nodes}:
        return "set of reachable nodes changed"
    return None
