"""C03 — text is read according to the documented grammar and order of operations."""
from . import audit as A
from . import engine as E
from . import exact as X
from . import gen as G
from . import refparse as RP
from .runner import hyp_run

PROP = "C03"
LEVEL = "exploration"
RULE = (
    "every token sequence of <= 4 (quick) / 6 (thorough) tokens over a 16-token vocabulary, exhaustively, plus strings from four families (random derivations of the documented grammar rendered with minimal or explicit "
    "parentheses, implicit multiplication, whitespace and bracket/en-dash aliases; rule-shaped templates; 1-3 "
    "character-level mutations of those; token soups over the tokenizer alphabet); oracle = an independent "
    "reference tokenizer+parser written from the documented grammar: accept/reject must coincide, and on accept the "
    "tree's exact rational value at 6 assignments, its in-order operand leaf sequence and the int/float kind of each "
    "literal must equal the reference's; non-trivial = accepted with >= 2 operators, or rejected with >= 3 tokens; distinct by string"
)
ASSUMPTIONS = [
    "the reference parser (harness/vpm/refparse.py, ~150 lines, no mathy_core import) is the reading of the documented grammar",
    "full structural equality is deliberately not required: an equivalent node encoding would not violate the statement",
]


def impl_leaves(root):
    out = []
    for n in A.inorder(root):
        k = A.kind(n)
        if k == "ConstantExpression":
            v = n.value
            if hasattr(v, "item") and hasattr(v, "dtype"):
                v = v.item()
            out.append(("c", abs(v), type(v).__name__))
        elif k == "VariableExpression":
            out.append(("v", n.identifier))
    return out


def ref_leaves(ast):
    out = []

    def rec(a):
        if a[0] == "c":
            out.append(("c", abs(a[1]), type(a[1]).__name__))
        elif a[0] == "v":
            out.append(("v", a[1]))
        else:
            for x in a[1:]:
                if isinstance(x, tuple):
                    rec(x)

    rec(ast)
    return out


def values_agree(root, ast, assigns):
    """None when all compared assignments agree, else a witness dict. Also returns #compared."""
    compared = 0
    for a in assigns:
        try:
            ri = X.try_eval(root, a)
        except X.NonFinite:
            ri = None
        st = X.State(a)
        try:
            vr = X.eval_ast(ast, a, st)
        except X.Undefined:
            vr = None
        except (OverflowError, ZeroDivisionError):
            vr = None
        vi = None if ri is None else ri.value
        if vi is None and vr is None:
            continue
        if vi is None or vr is None:
            return {"assignment": G.show_assignment(a), "impl": None if vi is None else str(vi), "reference": None if vr is None else str(vr)}, compared
        compared += 1
        if vi == vr:
            continue
        if (ri.inexact or st.inexact) and not isinstance(vi, tuple) and not isinstance(vr, tuple):
            if abs(vi - vr) <= abs(vr) / 10**9:
                continue
        return {"assignment": G.show_assignment(a), "impl": str(vi), "reference": str(vr)}, compared
    return None, compared


def check_string(ctx, case):
    s = case["s"]
    from mathy_core.parser import ExpressionParser

    try:
        ast = RP.parse(s)
        ref_ok = True
    except RP.Reject as e:
        ref_ok = False
        ref_why = str(e)
    except RecursionError:
        ctx.count("skipped:reference-recursion")
        return
    try:
        root = ExpressionParser().parse(s)
        impl_ok = True
        err = None
    except E.parse_errors() as e:
        impl_ok = False
        err = e
    except RecursionError as e:
        impl_ok = False
        err = e
    except Exception as e:
        impl_ok = False
        err = e
    if ref_ok and not impl_ok:
        return ctx.fail(("rejects-valid", type(err).__name__), case, {"error": repr(err)[:200], "reference_ast": repr(ast)[:300]})
    if not ref_ok and impl_ok:
        return ctx.fail(("accepts-invalid", ref_why), case, {"reference_rejects": ref_why, "impl_tree": E.text_of(root)})
    if not ref_ok:
        ctx.count("rejected")
        if not isinstance(err, E.parse_errors()):
            ctx.count("internal-error-on-invalid(C10)")
        try:
            ntok = len(RP.rtokenize(s))
        except RP.Reject:
            ntok = 0
        if ntok >= 4:
            ctx.nontriv(s)
        return
    ctx.count("accepted")
    nops = RP.count_ops(ast)
    if nops >= 2:
        ctx.nontriv(s)
    ctx.sample({"s": s, "tree": E.text_of(root)})
    aud = A.audit(root)
    if aud is not None:
        return ctx.fail(("malformed-tree",), case, {"audit": aud})
    vs = RP.variables(ast) | A.variables(root)
    assigns = G.assignments(vs, 6)
    witness, compared = values_agree(root, ast, assigns)
    leaves_i, leaves_r = impl_leaves(root), ref_leaves(ast)
    leaf_ok = [x[:2] for x in leaves_i] == [x[:2] for x in leaves_r]
    ctx.count("value_comparisons", compared)
    if witness is not None or not leaf_ok:
        det = {"impl_tree": E.text_of(root), "reference_ast": repr(ast)[:400], "witness": witness, "leaves_equal": leaf_ok}
        kindb = "value" if witness is not None else "operand-sequence"
        return ctx.fail((kindb, "other"), case, det)
    # "no operand is re-associated": the shape of the tree is the shape the grammar prescribes. The only other shape that is
    # attributed to known finding F-C03-1 is "explicit products nest to the right" (x * y * z read as x * (y * z); exact
    # values agree); any other shape is a new re-association (e.g. implicit factor runs folded from the right, or a quotient
    # that swallows what follows its divisor)
    try:
        from .schemas import tree_to_ast

        shape = tree_to_ast(root)
        if shape != ast:
            conv = shape == RP.parse(s, muldiv_right=True)
            return ctx.fail(("re-associated", "product-chain" if conv else "other"), case, {"impl_tree": repr(shape)[:300], "grammar_reading": repr(ast)[:300], "is_the_right_nested_product_reading": conv})
    except RP.Reject:
        ctx.count("structure_comparison_failed")
    if [x[2] for x in leaves_i if x[0] == "c"] != [x[2] for x in leaves_r if x[0] == "c"]:
        return ctx.fail(("literal-coercion",), case, {"impl": [x for x in leaves_i if x[0] == "c"], "reference": [x for x in leaves_r if x[0] == "c"]})


def classify_right_nesting(bucket, case, detail, args):
    return bucket == "re-associated|product-chain" and isinstance(detail, dict) and detail.get("is_the_right_nested_product_reading") is True


CLASSIFIERS = {"right_nested_product_chain": classify_right_nesting}


def replay(ctx, case):
    check_string(ctx, case)


TOKENS = ["x", "y", "e", "2", "0", "0.5", "+", "-", "*", "/", "^", "!", "=", "(", ")", "sgn"]


def run(ctx):
    # bounded-exhaustive part: every token sequence up to a length bound over a 16-token vocabulary
    import itertools

    bound = 4 if ctx.tier == "quick" else 6
    n = 0
    for k in range(1, bound + 1):
        for seq in itertools.product(TOKENS, repeat=k):
            n += 1
            if n % ctx.nshards != ctx.shard:
                continue
            ctx.count("evaluations")
            ctx.count("exhaustive_strings")
            check_string(ctx, {"s": "".join(seq)})
    ctx.info["exhaustive_token_sequences"] = f"all {n} sequences of <= {bound} tokens over {TOKENS}"
    # juxtaposition family: every run of 2..3 (thorough: 4) directly adjacent factors - literal, variable, function call, group -
    # each bare or followed by ^2 or !, with and without a leading minus and a trailing addend: what a suffix binds to must
    # not depend on which kinds of factor stand next to each other (e.g. a literal before a function call before ^)
    atoms = ["2", "x", "sgn(x)", "(x+1)", "3.5", "y"]
    forms = [a + suf for a in atoms for suf in ("", "^2", "!")]
    m = 0
    for k in range(2, (3 if ctx.tier == "quick" else 4) + 1):
        for seq in itertools.product(forms, repeat=k):
            for pre, post in (("", ""), ("-", ""), ("", "+1")) if k < 4 else (("", ""),):
                m += 1
                if m % ctx.nshards != ctx.shard:
                    continue
                ctx.count("evaluations")
                ctx.count("juxtaposition_strings")
                check_string(ctx, {"s": pre + "".join(seq) + post})
    ctx.info["juxtaposition_family"] = f"{m} strings: runs of 2..{3 if ctx.tier == 'quick' else 4} adjacent factors over {forms}"
    strat = G.grammar_strings(10 if ctx.tier == "quick" else 16).map(lambda s: {"s": s})
    hyp_run(ctx, "grammar-strings", strat, check_string, ctx.n(12000, 100000))
    if ctx.tier == "thorough":
        from . import fuzz

        fuzz.campaign(ctx, "c03")
