"""Exact (rational) evaluation of mathy trees and of reference ASTs.

Walks only left/right links, node classes, ConstantExpression.value and
VariableExpression.identifier - never MathExpression.evaluate."""
from fractions import Fraction
import math


class Undefined(Exception):
    """Outside the common domain of definition (division by zero, 0^negative, negative base with a
    fractional exponent, factorial of a non-natural, oversize)."""


class NonFinite(Exception):
    """The tree contains a NaN/inf constant (outside every rule/printing property)."""


class Malformed(Exception):
    """The tree is not evaluable by structure (missing operand etc.)."""


MAX_BITS = 20000
MAX_EXP = 64
MAX_FACT = 60


def const_value(v):
    """Exact Fraction of a constant payload (python or numpy number)."""
    if hasattr(v, "item") and hasattr(v, "dtype"):
        v = v.item()
    if isinstance(v, bool):
        v = int(v)
    if isinstance(v, int):
        return Fraction(v)
    if isinstance(v, float):
        if v != v or v in (float("inf"), float("-inf")):
            raise NonFinite()
        return Fraction(v)
    if isinstance(v, Fraction):
        return v
    raise Malformed(f"constant payload {v!r}")


def _pow(l, r, st):
    if r.denominator == 1:
        n = int(r)
        if abs(n) > st.max_exp:
            raise Undefined("exponent bound")
        if l == 0 and n < 0:
            raise Undefined("0^negative")
        res = l**n
        if max(res.numerator.bit_length(), res.denominator.bit_length()) > MAX_BITS:
            raise Undefined("oversize")
        return res
    if l < 0:
        raise Undefined("negative base, fractional exponent")
    if l == 0:
        if r > 0:
            return Fraction(0)
        raise Undefined("0^negative")
    st.inexact = True
    try:
        f = float(l) ** float(r)
    except (OverflowError, ZeroDivisionError):
        raise Undefined("float power overflow")
    if f != f or f in (float("inf"), float("-inf")):
        raise Undefined("float power overflow")
    return Fraction(f)


class State:
    def __init__(self, ctx, override=None, max_exp=MAX_EXP):
        self.ctx = ctx
        self.override = override or {}
        self.inexact = False
        self.max_exp = max_exp


def _kind(e):
    return type(e).__name__


def _f(x):
    try:
        return float(x)
    except OverflowError:
        return float("inf")


def _ev(e, st):
    """Returns (value, cond): cond >= 1 estimates how much a relative error in an inexact
    sub-result is amplified (cancellation); only used when float powers made the value inexact."""
    k = _kind(e)
    if k == "ConstantExpression":
        if id(e) in st.override:
            v = st.override[id(e)]
        else:
            v = const_value(e.value)
        return v, 1.0
    if k == "VariableExpression":
        if e.identifier not in st.ctx:
            raise KeyError(e.identifier)
        return Fraction(st.ctx[e.identifier]), 1.0
    l, r = e.left, e.right
    if k in ("NegateExpression", "FactorialExpression", "SgnExpression", "AbsExpression"):
        if (l is None) == (r is None):
            raise Malformed(f"{k} needs exactly one operand")
        v, c = _ev(l if l is not None else r, st)
        if k == "NegateExpression":
            return -v, c
        if k == "SgnExpression":
            return Fraction((v > 0) - (v < 0)), 1.0
        if k == "AbsExpression":
            return abs(v), c
        if v.denominator != 1 or v < 0 or v > MAX_FACT:
            raise Undefined("factorial domain")
        return Fraction(math.factorial(int(v))), 1.0
    if l is None or r is None:
        raise Malformed(f"{k} needs two operands")
    a, ca = _ev(l, st)
    b, cb = _ev(r, st)
    if k == "EqualExpression":
        return ("eq", a, b), max(ca, cb)
    if isinstance(a, tuple) or isinstance(b, tuple):
        raise Malformed("equation nested inside an operator")
    if k in ("AddExpression", "SubtractExpression"):
        v = a + b if k == "AddExpression" else a - b
        if st.inexact:
            den = _f(abs(v))
            if v == 0 or den == 0.0:
                c = float("inf")
            elif a != 0 or b != 0:
                c = (_f(abs(a)) * ca + _f(abs(b)) * cb) / den
            else:
                c = 1.0
        else:
            c = 1.0
        return v, max(c, 1.0) if c == c else float("inf")
    if k == "MultiplyExpression":
        return a * b, ca + cb
    if k == "DivideExpression":
        if b == 0:
            raise Undefined("division by zero")
        return a / b, ca + cb
    if k == "PowerExpression":
        v = _pow(a, b, st)
        return v, ca * max(1.0, _f(abs(b))) + cb
    raise Malformed(f"unknown node kind {k}")


class Result:
    __slots__ = ("value", "cond", "inexact")

    def __init__(self, value, cond, inexact):
        self.value = value
        self.cond = cond
        self.inexact = inexact

    @property
    def is_eq(self):
        return isinstance(self.value, tuple)


def evaluate(tree, ctx, override=None, max_exp=MAX_EXP):
    """Exact value of a mathy tree at assignment ctx (name -> Fraction/int).
    Returns Result; raises Undefined / NonFinite / Malformed / KeyError."""
    st = State(ctx, override, max_exp)
    try:
        v, m = _ev(tree, st)
    except (OverflowError, ZeroDivisionError):
        raise Undefined("arithmetic")
    return Result(v, m, st.inexact)


def try_eval(tree, ctx, override=None, max_exp=MAX_EXP):
    """Result, or None when undefined at this assignment. NonFinite / Malformed propagate."""
    try:
        return evaluate(tree, ctx, override, max_exp)
    except Undefined:
        return None


def has_nonfinite(tree):
    stack = [tree]
    while stack:
        n = stack.pop()
        if _kind(n) == "ConstantExpression":
            v = n.value
            try:
                f = float(v)
            except (TypeError, ValueError, OverflowError):
                continue
            if f != f or f in (float("inf"), float("-inf")):
                return True
        for c in (n.left, n.right):
            if c is not None:
                stack.append(c)
    return False


# ---- reference ASTs (refparse tuples)
def eval_ast(a, ctx, st=None):
    st = st or State(ctx)
    k = a[0]
    if k == "c":
        return const_value(a[1])
    if k == "v":
        if a[1] not in ctx:
            raise KeyError(a[1])
        return Fraction(ctx[a[1]])
    if k == "neg":
        return -eval_ast(a[1], ctx, st)
    if k == "!":
        v = eval_ast(a[1], ctx, st)
        if v.denominator != 1 or v < 0 or v > MAX_FACT:
            raise Undefined("factorial domain")
        return Fraction(math.factorial(int(v)))
    if k == "sgn":
        v = eval_ast(a[1], ctx, st)
        return Fraction((v > 0) - (v < 0))
    l = eval_ast(a[1], ctx, st)
    r = eval_ast(a[2], ctx, st)
    if isinstance(l, tuple) or isinstance(r, tuple):
        # chained equations a = b = c: value is the pair-of-pairs; treat as ('eq', l, r)
        return ("eq", l, r)
    if k == "+":
        return l + r
    if k == "-":
        return l - r
    if k == "*":
        return l * r
    if k == "/":
        if r == 0:
            raise Undefined("division by zero")
        return l / r
    if k == "^":
        return _pow(l, r, st)
    if k == "=":
        return ("eq", l, r)
    raise Malformed(k)


# ---- fold-sensitivity tolerance (DESIGN §3.2)
ETA = Fraction(1, 2**20)
ULP = Fraction(1, 2**52)


def fold_tolerance(after, ctx, fresh_consts, base_value, side=None):
    """Allowed |difference| caused by rounding of the constants a rule newly created.
    fresh_consts: ConstantExpression nodes of `after` that did not exist before the rewrite.
    Returns Fraction (0 when no fresh constant can have been rounded), or None if it cannot be
    computed (perturbed evaluation undefined)."""
    S = Fraction(0)
    for c in fresh_consts:
        try:
            v = const_value(c.value)
        except (NonFinite, Malformed):
            return None
        if v == 0 or v.denominator == 1 and not isinstance(_plain(c.value), float):
            # exact python/numpy integers are never rounded
            continue
        r = try_eval(after, ctx, {id(c): v * (1 + ETA)})
        if r is None:
            return None
        val = r.value
        if isinstance(val, tuple):
            if side is None:
                from .equiv import scalar_residual

                val = scalar_residual(val)
            else:
                val = val[side]
                if isinstance(val, tuple):
                    return None
        S += abs(val - base_value) / ETA
    return 16 * ULP * S


def _plain(v):
    if hasattr(v, "item") and hasattr(v, "dtype"):
        return v.item()
    return v
