"""C05 — evaluation computes the mathematically correct number."""
import math
from fractions import Fraction

from hypothesis import strategies as st

from . import audit as A
from . import engine as E
from . import exact as X
from . import gen as G
from . import refparse as RP
from .runner import guarded, hyp_run

PROP = "C05"
LEVEL = "exploration"
EVALUATION_COUNTER = "tree_evaluations"
RULE = (
    "expression texts (integer-heavy grammar derivations incl. large literals and powers, rule templates, equations) "
    "parsed by the parser or built through the public constructors (one-operand nodes on either side), x assignments "
    "drawing each variable from small ints, ints up to +-10^40, floats (0.0, -0.0, 0.5, 1e200, 1e-200, ...), absent and "
    "None; oracle: (whole tree) all-integer expressions must equal the exact rational evaluator's integer; (every node) "
    "node.evaluate(ctx) must equal the typed reference operation applied to the implementation's own operand values - "
    "bit-exact for + - * /, exact Python int for int^nonnegative-int and factorial, <= 4 ulps for float pow, NaN for a zero "
    "divisor, common value or an exception for equations; a variable that is absent or None must raise; non-trivial = "
    ">= 3 operators, or |result| >= 2^63, or an error clause exercised; distinct by (text, assignment, builder)"
)
ASSUMPTIONS = [
    "not asserted (outside the statement): int^negative-int, real powers of negative bases, 0^negative, factorial of non-naturals, "
    "mixed big-int/float operations that raise OverflowError (raising is not silent), results beyond 20000 bits",
]

BIG = [10**10, 10**18, 2**63, 2**64 + 1, 10**30, 10**40, -(10**20), -(10**40), 3037000500, 2**31]
FLOATS = [0.0, -0.0, 0.5, -1.5, 3.141592653589793, 1e200, 1e-200, 1e16, 123456789.125, -2.0, 1.0]

value_strategy = st.one_of(
    st.integers(-12, 12).map(lambda v: ["int", str(v)]),
    st.integers(-12, 12).map(lambda v: ["int", str(v)]),
    st.sampled_from(BIG).map(lambda v: ["int", str(v)]),
    st.integers(-(10**40), 10**40).map(lambda v: ["int", str(v)]),
    st.sampled_from(FLOATS).map(lambda v: ["float", v.hex()]),
    st.floats(allow_nan=False, allow_infinity=False, width=64).map(lambda v: ["float", v.hex()]),
    st.just(["missing"]),
    st.just(["none"]),
)

int_leaf = st.one_of(st.integers(0, 12).map(str), st.sampled_from(["10", "100", "4096", "65536", "999983", "1000000", "4294967296"]), G.var3, G.var3)


@st.composite
def int_expr(draw, size):
    if size <= 1:
        return draw(int_leaf)
    k = draw(st.integers(0, 11))
    if k <= 7:
        op = draw(st.sampled_from(["+", "-", "*", "*", "+"]))
        ls = draw(st.integers(1, size - 1))
        return f"({draw(int_expr(ls))}) {op} ({draw(int_expr(max(1, size - 1 - ls)))})"
    if k <= 9:
        return f"({draw(int_expr(size - 1))})^{draw(st.sampled_from(['0', '1', '2', '3', '5', '10', '30', '64']))}"
    if k == 10:
        return f"{draw(st.sampled_from(['-', 'sgn', 'sgn']))}({draw(int_expr(size - 1))})"
    return draw(st.sampled_from(["0!", "5!", "20!", "25!", "3!"]))


zero_forms = st.sampled_from(["0", "0.0", "x - x", "y - y", "0 * z", "z * 0", "x * 0.0", "(x + 1) - (1 + x)", "0^2", "-0", "x", "z^2 - z * z", "2^-1 - 0.5", "sgn(0)"])
numerators = st.one_of(
    st.sampled_from(["1", "x", "x^y", "2^-1", "x^0.5", "sgn(x)", "2^0.5", "(x + z)^2", "x * y", "3!", "-x", "0", "x^2.0", "1.5", "z^-2"]),
    st.integers(1, 4).flatmap(lambda n: int_expr(n)),
)


def zero_division_text():
    """Quotients whose divisor evaluates to zero, with numerators of every number kind (python int, float, and the
    numpy scalars that powers produce) - the 'division by zero yields NaN' clause."""
    return st.builds(
        lambda a, z, form: [f"({a}) / ({z})", f"1 + ({a}) / ({z})", f"(({a}) / ({z}))^2", f"({a}) / ({z}) = 1", f"2 * (({a}) / ({z})) - y"][form],
        numerators, zero_forms, st.integers(0, 4),
    )


def eval_case():
    texts = st.one_of(
        zero_division_text(),
        st.integers(1, 8).flatmap(int_expr),
        st.integers(1, 8).flatmap(int_expr),
        G.expr_text(10),
        G.template_text(),
        st.builds(lambda a, b: f"{a} = {b}", st.integers(1, 4).flatmap(int_expr), st.integers(1, 4).flatmap(int_expr)),
    )
    pre = st.one_of(st.just([]), st.just([]), st.lists(st.tuples(st.integers(0, 10), st.integers(0, 30)), min_size=1, max_size=4).map(lambda ps: [list(p) for p in ps]))
    return st.builds(
        lambda t, x, y, z, b, col, ab, pr: {"text": t, "ctx": {"x": x, "y": y, "z": z}, "build": b, "child_on_left": col, "abs": ab, "pre": pr if b == "parser" else []},
        texts, value_strategy, value_strategy, value_strategy, st.sampled_from(["parser", "parser", "ctor"]), st.booleans(), st.booleans(), pre,
    )


def decode_ctx(c):
    out = {}
    for k, v in c.items():
        if v[0] == "int":
            out[k] = int(v[1])
        elif v[0] == "float":
            out[k] = float.fromhex(v[1])
        elif v[0] == "none":
            out[k] = None
    return out


def build_ctor(ast, col, abs_for_sgn=False):
    """Build a mathy tree from a reference AST through the public constructors.
    abs_for_sgn: build AbsExpression where the text says sgn (abs has no surface syntax)."""
    from mathy_core import expressions as M

    k = ast[0]
    if k == "c":
        return M.ConstantExpression(ast[1])
    if k == "v":
        return M.VariableExpression(ast[1])
    if k in ("neg", "!", "sgn"):
        cls = {"neg": M.NegateExpression, "!": M.FactorialExpression, "sgn": M.AbsExpression if abs_for_sgn else M.SgnExpression}[k]
        return cls(build_ctor(ast[1], col, abs_for_sgn), child_on_left=col)
    cls = {"+": M.AddExpression, "-": M.SubtractExpression, "*": M.MultiplyExpression, "/": M.DivideExpression, "^": M.PowerExpression, "=": M.EqualExpression}[k]
    return cls(build_ctor(ast[1], col, abs_for_sgn), build_ctor(ast[2], col, abs_for_sgn))


def plain(v):
    if hasattr(v, "item") and hasattr(v, "dtype"):
        return v.item()
    return v


def is_intlike(v):
    v = plain(v)
    return isinstance(v, int) and not isinstance(v, bool)


def same_float(a, b):
    if a != a and b != b:
        return True
    return a == b and math.copysign(1, a) == math.copysign(1, b) if (a == 0 and b == 0) else a == b


NOT_ASSERTED = object()


def ref_op(kind, a, b=None):
    """Typed reference operation on python numbers; returns value, NOT_ASSERTED, or ('raises',)."""
    a = plain(a)
    b = plain(b)
    try:
        if kind == "NegateExpression":
            return -a
        if kind == "SgnExpression":
            if a != a:
                return NOT_ASSERTED
            return -1 if a < 0 else (1 if a > 0 else 0)
        if kind == "AbsExpression":
            return abs(a)
        if kind == "FactorialExpression":
            if is_intlike(a) and 0 <= a <= 2000:
                return math.factorial(a)
            return NOT_ASSERTED
        if kind == "AddExpression":
            return a + b
        if kind == "SubtractExpression":
            return a - b
        if kind == "MultiplyExpression":
            return a * b
        if kind == "DivideExpression":
            if b == 0:
                return float("nan")
            return a / b
        if kind == "PowerExpression":
            if is_intlike(a) and is_intlike(b):
                if b >= 0:
                    if abs(a) > 1 and b * max(1, abs(a).bit_length()) > 200000:
                        return NOT_ASSERTED
                    return a**b
                return NOT_ASSERTED
            if a != a or b != b:
                return NOT_ASSERTED
            # infinite operands: numpy evaluates x^0.5 as sqrt (sqrt(-inf) is nan, C pow(-inf, 0.5) is +inf); which library
            # convention applies at infinity is outside the statement
            if a in (float("inf"), float("-inf")) or b in (float("inf"), float("-inf")):
                return NOT_ASSERTED
            try:
                return ("pow", math.pow(a, b))
            except (ValueError, OverflowError, ZeroDivisionError):
                return NOT_ASSERTED
        if kind == "EqualExpression":
            if a == b:
                return a
            # an exact int beside a double that is its nearest representable value: equal as IEEE doubles, different
            # as exact numbers - the statement does not say which comparison is meant, so this is not asserted
            if (is_intlike(a) != is_intlike(b)) and float(a) == float(b):
                return NOT_ASSERTED
            return ("raises",)
    except OverflowError:
        return NOT_ASSERTED
    raise AssertionError(kind)


class Infeasible(Exception):
    pass


def int_feasible(n, env):
    """Guarded run of the reference semantics over the whole tree (python ints stay ints, / and float operands
    give floats, sgn and factorial give ints whatever they are fed). Its only purpose is to raise Infeasible
    BEFORE the implementation is asked to build an astronomically large integer (int ** int with a huge result,
    towers of such powers, huge factorials); cases it rejects are skipped and counted. Anything it cannot follow
    (missing variable, domain errors, overflow) continues as NaN, i.e. float-typed and harmless."""
    nan = float("nan")
    k = A.kind(n)
    if k == "ConstantExpression":
        v = plain(n.value)
        return v if isinstance(v, (int, float)) and not isinstance(v, bool) else nan
    if k == "VariableExpression":
        v = env.get(n.identifier)
        return v if isinstance(v, (int, float)) and not isinstance(v, bool) else nan
    kids = [int_feasible(c, env) for c in (n.left, n.right) if c is not None]
    try:
        if k == "NegateExpression":
            return -kids[0]
        if k == "SgnExpression":
            return (kids[0] > 0) - (kids[0] < 0)
        if k == "AbsExpression":
            return abs(kids[0])
        if k == "FactorialExpression":
            v = kids[0]
            if v != v or v in (float("inf"), float("-inf")):
                return nan
            iv = int(v)
            if iv > 2000:
                raise Infeasible()
            return math.factorial(iv) if iv >= 0 else nan
        if len(kids) != 2:
            return nan
        a, b = kids
        if k == "AddExpression":
            return a + b
        if k == "SubtractExpression":
            return a - b
        if k == "MultiplyExpression":
            return a * b
        if k == "DivideExpression":
            return nan if b == 0 else a / b
        if k == "PowerExpression":
            if is_intlike(a) and is_intlike(b):
                if b < 0:
                    return float(a) ** b if a != 0 else nan
                if abs(a) > 1 and b * abs(a).bit_length() > 200000:
                    raise Infeasible()
                return a**b
            r = math.pow(a, b)
            return r
        if k == "EqualExpression":
            return a if a == b else nan
    except Infeasible:
        raise
    except (OverflowError, ValueError, ZeroDivisionError, TypeError):
        return nan
    return nan


def check_eval(ctx, case):
    text = case["text"]
    try:
        ast = RP.parse(text)
    except (RP.Reject, RecursionError):
        ctx.count("rejected-text")
        return
    if case.get("build") == "ctor":
        try:
            root = build_ctor(ast, bool(case.get("child_on_left")), bool(case.get("abs")))
        except Exception as e:
            return ctx.fail(("constructor-raised", type(e).__name__), case, {"error": repr(e)})
    elif case.get("pre"):
        # a tree reached by rewrites: evaluation must follow the CURRENT links, not anything cached at construction
        root = E.build_tree(ctx, {"text": text, "pre": case["pre"]})
        if root is None:
            ctx.count("rejected-text")
            return
        ctx.count("rewritten-trees")
    else:
        root = E.parse(text)
        if root is None:
            ctx.count("rejected-text")
            return
    env = decode_ctx(case["ctx"])
    if case.get("all_rewrites"):
        # every single rewrite of this tree, evaluated with large integers: payloads that rules put into the
        # tree (numpy scalars, re-used operands) show when arithmetic leaves the 64-bit range
        for name, rule in E.rules():
            for n in A.inorder(root):
                try:
                    if not rule.can_apply_to(n):
                        continue
                except Exception:
                    continue
                ap = E.apply(rule, n)
                if ap.error is not None or ap.result_root is None or A.audit(ap.result_root) is not None or X.has_nonfinite(ap.result_root):
                    continue
                ctx.count("rewrite_results_evaluated")
                label = text + " | " + name + "@" + E.text_of(n)
                check_tree_eval(ctx, {**case, "after": f"{name} at {E.text_of(n)}"}, ap.result_root, env, label)
                # the same result as an operand of arithmetic with integers beyond 64 bits (built with the public constructors)
                from mathy_core import expressions as M

                if A.kind(ap.result_root) != "EqualExpression":
                    big = M.AddExpression(M.MultiplyExpression(ap.result_root, M.ConstantExpression(10**30 + 1)), M.ConstantExpression(2**70))
                    check_tree_eval(ctx, {**case, "after": f"{name} at {E.text_of(n)}", "wrapped": "(result) * (10^30 + 1) + 2^70"}, big, env, label + " | wrapped")
        return
    check_tree_eval(ctx, case, root, env, text)


def check_tree_eval(ctx, case, root, env, text):
    """All obligations of C05 on one tree and one assignment."""
    ctx.count("tree_evaluations")
    try:
        twin = root.clone()  # never evaluated before the history clause at the end
    except Exception:
        twin = None
    try:
        int_feasible(root, env)
    except Infeasible:
        ctx.count("skipped:astronomical-integer")
        return
    except (OverflowError, RecursionError):
        ctx.count("skipped:astronomical-integer")
        return
    used = A.variables(root)
    missing = [v for v in used if env.get(v) is None]
    key = (text, repr(sorted(case["ctx"].items())), case.get("build"), case.get("child_on_left"), case.get("abs"), repr(case.get("pre")))
    ctx.count("trees")
    nodes = A.preorder(root)
    nops = sum(1 for n in nodes if n.left is not None or n.right is not None)
    # (4) a variable without a value is an error, never a default
    if missing:
        ctx.count("clause:missing-variable")
        ctx.nontriv(key)
        for c in ([env, {k: v for k, v in env.items() if v is not None}] if any(v is None for v in env.values()) else [env]) + ([None] if len(missing) == len(used) and not any(env.get(v) is not None for v in used) else []):
            try:
                val = root.evaluate(c)
            except Exception:
                continue
            return ctx.fail(("missing-variable-defaulted",), case, {"missing": missing, "returned": repr(val), "context": repr(c)})
        return
    ctx.sample({"text": text, "ctx": {k: (repr(v) if not isinstance(v, int) or abs(v) < 10**12 else f"{v:.3e}") for k, v in env.items() if k in used}, "build": case.get("build")})
    # whole-tree exact check for all-integer expressions
    int_only = all(is_intlike(env[v]) for v in used) and all(
        A.kind(n) in ("AddExpression", "SubtractExpression", "MultiplyExpression", "NegateExpression", "PowerExpression", "FactorialExpression", "VariableExpression", "EqualExpression", "AbsExpression", "SgnExpression")
        or (A.kind(n) == "ConstantExpression" and is_intlike(n.value))
        for n in nodes
    )
    if int_only:
        # only non-negative integer powers are claimed exact
        for n in nodes:
            if A.kind(n) == "PowerExpression":
                try:
                    ev = X.evaluate(n.right, {k: Fraction(v) for k, v in env.items() if v is not None}, max_exp=100).value
                    if ev < 0:
                        int_only = False
                except (X.Undefined, X.NonFinite, X.Malformed, TypeError):
                    int_only = False
    if int_only:
        try:
            r = X.evaluate(root, {k: Fraction(v) for k, v in env.items() if v is not None}, max_exp=100)
            exact_val = r.value
        except (X.Undefined, X.NonFinite, X.Malformed):
            exact_val = None
        if exact_val is not None and not (isinstance(exact_val, tuple)) and exact_val.denominator == 1:
            ctx.count("clause:all-integer")
            want = int(exact_val)
            try:
                got = root.evaluate(env)
            except Exception as e:
                return ctx.fail(("integer-expression-raised", type(e).__name__), case, {"expected": str(want)[:80], "error": repr(e)[:200]})
            if not is_intlike(got) or int(plain(got)) != want:
                return ctx.fail(("integer-expression-wrong",), case, {"expected": str(want)[:120], "got": repr(got)[:120]})
            if abs(want) >= 2**63 or nops >= 3:
                ctx.nontriv(key)
    # per-node compositional check
    for n in nodes:
        k = A.kind(n)
        if k in ("ConstantExpression", "VariableExpression"):
            try:
                got = n.evaluate(env)
            except Exception as e:
                return ctx.fail(("leaf-raised", k), case, {"error": repr(e)})
            want = n.value if k == "ConstantExpression" else env[n.identifier]
            if type(plain(got)) is not type(plain(want)) or not (plain(got) == plain(want) or (plain(got) != plain(got) and plain(want) != plain(want))):
                return ctx.fail(("leaf-value", k), case, {"got": repr(got), "want": repr(want)})
            continue
        kids = [c for c in (n.left, n.right) if c is not None]
        try:
            vals = [c.evaluate(env) for c in kids]
        except Exception:
            # an operand raises: covered when that operand is visited as a node itself
            continue
        if any(isinstance(plain(v), complex) for v in vals):
            continue
        want = ref_op(k, *vals) if len(vals) == (2 if k in A.BINARY else 1) else NOT_ASSERTED
        ctx.count("node_checks")
        try:
            got = n.evaluate(env)
            raised = None
        except Exception as e:
            got = None
            raised = e
        det = {"node": E.text_of(n), "kind": k, "operands": [repr(v)[:60] for v in vals]}
        if want is NOT_ASSERTED:
            ctx.count("not_asserted")
            continue
        if want == ("raises",):
            ctx.count("clause:equation-sides-differ")
            ctx.nontriv(key)
            if raised is None:
                det["returned"] = repr(got)
                return ctx.fail(("unequal-equation-returned",), case, det)
            continue
        if raised is not None:
            if isinstance(raised, OverflowError) and not all(is_intlike(v) for v in vals):
                ctx.count("not_asserted:overflow-raised")
                continue
            det["error"] = repr(raised)[:200]
            return ctx.fail(("operator-raised", k, type(raised).__name__), case, det)
        g = plain(got)
        if isinstance(want, tuple) and want[0] == "pow":
            w = want[1]
            if isinstance(g, (int, float)) and not isinstance(g, bool):
                gf = float(g)
                if (gf != gf) != (w != w) or (w == w and abs(gf - w) > 4 * math.ulp(w)):
                    det.update(got=repr(got), want=repr(w))
                    return ctx.fail(("float-power-wrong",), case, det)
                continue
            det.update(got=repr(got), want=repr(w))
            return ctx.fail(("float-power-type",), case, det)
        if k == "DivideExpression" and plain(vals[1]) == 0:
            ctx.count("clause:zero-divisor")
            ctx.nontriv(key)
        if isinstance(want, int) and not isinstance(want, bool):
            if not is_intlike(g) or g != want:
                det.update(got=repr(got)[:120], want=str(want)[:120])
                return ctx.fail(("integer-operation-wrong", k), case, det)
            if abs(want) >= 2**63:
                ctx.nontriv(key)
        else:
            if not isinstance(g, float) or not same_float(g, want):
                det.update(got=repr(got), want=repr(want))
                return ctx.fail(("float-operation-wrong", k), case, det)
    if nops >= 3:
        ctx.nontriv(key)
    # "for all assignments": the tree object has now been evaluated (whole and node by node) under env. Evaluated under a
    # SECOND assignment it must give what a copy that was never evaluated gives, and under the first one again what it gave
    # before - nothing an earlier evaluation leaves behind may matter
    if twin is not None and used:
        env2 = {}
        for name, v in env.items():
            pv = plain(v) if v is not None else None
            env2[name] = None if v is None else (pv + 1 if is_intlike(pv) else (pv * 2 + 1 if isinstance(pv, float) else v))

        def outcome(tree, e):
            try:
                r = plain(tree.evaluate(e))
            except Exception as ex:
                return ("raised", type(ex).__name__)
            return ("nan",) if isinstance(r, float) and r != r else (type(r).__name__, r)

        first = outcome(root, env)
        a, b = outcome(root, env2), outcome(twin, env2)
        again = outcome(root, env)
        ctx.count("clause:second-assignment")
        if a != b:
            return ctx.fail(("evaluation-depends-on-history", "second-assignment"), case, {"second_assignment": {k: repr(v)[:40] for k, v in env2.items() if k in used}, "tree_evaluated_before": repr(a)[:120], "fresh_copy": repr(b)[:120]})
        if again != first:
            return ctx.fail(("evaluation-depends-on-history", "first-assignment-again"), case, {"first": repr(first)[:120], "again": repr(again)[:120]})


def replay(ctx, case):
    check_eval(ctx, case)


BIG_ENV = {"x": ["int", str(10**18 + 1)], "y": ["int", str(2**63)], "z": ["int", str(-(10**20))], "w": ["int", "3"]}


def run(ctx):
    texts = G.sweep_texts()
    step = 6 if ctx.tier == "quick" else 1
    for i, t in enumerate(texts[::step]):
        if i % ctx.nshards != ctx.shard:
            continue
        ctx.count("evaluations")
        ctx.count("sweep:cases")
        guarded(ctx, check_eval, {"text": t, "ctx": BIG_ENV, "build": "parser", "child_on_left": False, "abs": False, "pre": [], "all_rewrites": True})
    hyp_run(ctx, "evaluations", eval_case(), check_eval, ctx.n(8000, 60000))
