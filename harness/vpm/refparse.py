"""Independent reference tokenizer + parser for the grammar documented in the ExpressionParser
docstring (as sharpened by property C03). Produces tuple ASTs:
  ("c", int|float) ("v", name) ("neg", e) ("!", e) ("sgn", e) (op, l, r) for op in + - * / ^ =
All binary chains are left-associative, as the EBNF repetition { op X }* prescribes.
`muldiv_right=True` nests explicit products to the right (a quotient still ends at its divisor); it exists ONLY to recognise
known finding F-C03-1 (shape of product chains; values are unaffected).
Nothing here imports mathy_core."""
from fractions import Fraction
import math


class Reject(Exception):
    pass


def rtokenize(s):
    toks = []
    i = 0
    n = len(s)
    while i < n:
        c = s[i]
        if c in " \t\r\n":
            i += 1
            continue
        if c == "." or ("0" <= c <= "9"):
            j = i
            while j < n and (s[j] == "." or "0" <= s[j] <= "9"):
                j += 1
            toks.append(("num", s[i:j]))
            i = j
            continue
        if ("a" <= c <= "z") or ("A" <= c <= "Z"):
            j = i
            while j < n and (("a" <= s[j] <= "z") or ("A" <= s[j] <= "Z")):
                j += 1
            run = s[i:j]
            if run == "sgn":
                toks.append(("fn", "sgn"))
            else:
                for ch in run:
                    toks.append(("var", ch))
            i = j
            continue
        if c in "+*/^!=":
            toks.append((c, c))
        elif c == "-" or c == "–":
            toks.append(("-", "-"))
        elif c in "([":
            toks.append(("(", "("))
        elif c in ")]":
            toks.append((")", ")"))
        else:
            raise Reject("unsupported character")
        i += 1
    toks.append(("eof", ""))
    return toks


FIRSTF = ("var", "fn", "(")


class RP:
    def __init__(self, s, muldiv_right=False):
        self.t = rtokenize(s)
        self.i = 0
        self.mr = muldiv_right
        self.depth = 0

    def pk(self):
        return self.t[self.i][0]

    def nx(self):
        tok = self.t[self.i]
        self.i += 1
        return tok

    def ex(self, k):
        if self.pk() != k:
            raise Reject("expected " + k)
        return self.nx()

    def parse(self):
        e = self.equal()
        if self.pk() != "eof":
            raise Reject("trailing")
        return e

    def equal(self):
        e = self.add()
        while self.pk() == "=":
            self.nx()
            e = ("=", e, self.add())
        return e

    def add(self):
        e = self.mul()
        while self.pk() in ("+", "-"):
            op = self.nx()[0]
            e = (op, e, self.mul())
        return e

    def mul(self):
        e = self.exp()
        if self.mr:
            # the implementation's convention (known finding F-C03-1, narrowed): a product nests to the right, a quotient
            # ends at its divisor - x * y * z is x * (y * z), 8 / 4 * 2 is (8 / 4) * 2
            while self.pk() in ("*", "/"):
                op = self.nx()[0]
                if op == "*":
                    return ("*", e, self.mul())
                e = ("/", e, self.exp())
            return e
        while self.pk() in ("*", "/"):
            op = self.nx()[0]
            e = (op, e, self.exp())
        return e

    def exp(self):
        e = self.unary()
        if self.pk() == "^":
            self.nx()
            e = ("^", e, self.unary())
        return e

    def unary(self):
        neg = False
        if self.pk() == "-":
            self.nx()
            neg = True
        if self.pk() == "num":
            txt = self.nx()[1]
            try:
                v = float(txt) if "." in txt else int(txt)
            except ValueError:
                raise Reject("malformed number")
            if neg:
                v = -v
                neg = False
            e = ("c", v)
            if self.pk() == "!":
                self.nx()
                e = ("!", e)
            elif self.pk() in FIRSTF:
                e = ("*", e, self.factors())
        elif self.pk() in FIRSTF:
            e = self.factors()
        else:
            raise Reject("unary")
        return ("neg", e) if neg else e

    def factors(self):
        fs = []
        while self.pk() in FIRSTF:
            k = self.pk()
            if k == "var":
                fs.append(("v", self.nx()[1]))
            elif k == "fn":
                self.nx()
                self.ex("(")
                a = self.add()
                self.ex(")")
                fs.append(("sgn", a))
            else:
                self.nx()
                a = self.add()
                self.ex(")")
                fs.append(a)
        if self.pk() == "!":
            raise Reject("factorial of a non-literal")
        if self.pk() == "^":
            self.nx()
            fs[-1] = ("^", fs[-1], self.unary())
        e = fs[0]
        for f in fs[1:]:
            e = ("*", e, f)
        return e


def parse(s, muldiv_right=False):
    """Return the AST, or raise Reject."""
    return RP(s, muldiv_right).parse()


def variables(a, out=None):
    out = set() if out is None else out
    if a[0] == "v":
        out.add(a[1])
    elif a[0] != "c":
        for x in a[1:]:
            if isinstance(x, tuple):
                variables(x, out)
    return out


def leaves(a, out=None):
    """In-order operand leaves as ('c', |value|) / ('v', name)."""
    out = [] if out is None else out
    if a[0] == "c":
        out.append(("c", abs(a[1])))
    elif a[0] == "v":
        out.append(a)
    else:
        for x in a[1:]:
            if isinstance(x, tuple):
                leaves(x, out)
    return out


def count_ops(a):
    if a[0] in ("c", "v"):
        return 0
    return 1 + sum(count_ops(x) for x in a[1:] if isinstance(x, tuple))


def has_div_chain(a):
    """Some '/' node is the left operand of a '*' or '/' in the left-associative reading, or a '*'
    chain continues to the right of a '/' - the shapes on which right-nesting changes the value."""
    if not isinstance(a, tuple) or a[0] in ("c", "v"):
        return False
    if a[0] in ("*", "/") and isinstance(a[1], tuple) and a[1][0] == "/":
        return True
    return any(has_div_chain(x) for x in a[1:] if isinstance(x, tuple))
