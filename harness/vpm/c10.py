"""C10 — parsing is total, has a closed error contract and keeps no sticky state."""
from hypothesis import strategies as st

from . import audit as A
from . import engine as E
from . import gen as G
from .runner import hyp_run

PROP = "C10"
LEVEL = "exploration"
RULE = (
    "strings: every token sequence of <= 4/5 tokens over a 16-token vocabulary (exhaustive); grammar derivations, rule templates, their 1-3 character mutations and truncations, token soups over the "
    "tokenizer alphabet, arbitrary unicode insertions, bracket nesting up to depth 40 (100 thorough), flat operator "
    "chains of 500/1500/3000 operators for + - * / = and juxtaposition; histories: 2-8 parse calls on ONE parser mixing "
    "valid, invalid and repeated strings; oracle: each call returns a tree with a clean link/arity audit or raises "
    "ParserException (any subclass) or ValueError - any other exception type is a violation bucketed by (type, innermost "
    "mathy_core frame); after any history the used parser's outcome (structural signature or exception class) equals a "
    "fresh parser's; non-trivial = rejected input, or a history with a failure followed by a success; distinct by string/history"
)
ASSUMPTIONS = [
    "bounded nesting means bracket depth <= 40 (quick) / 100 (thorough); flat chains have nesting 0 and are in scope at any length tried",
]


def outcome(parser, s):
    """('ok', tree) | ('rejected', exc) | ('internal', exc)"""
    try:
        return "ok", parser.parse(s)
    except E.parse_errors() as e:
        return "rejected", e
    except BaseException as e:
        if isinstance(e, (KeyboardInterrupt, SystemExit, MemoryError)):
            raise
        return "internal", e


def nesting(s):
    d = m = 0
    for c in s:
        if c in "([":
            d += 1
            m = max(m, d)
        elif c in ")]":
            d -= 1
    return m


def longest_muldiv_run(s):
    """Longest run of '*' '/' operators at one bracket level (flat multiplicative chain length)."""
    best = 0
    counts = {0: 0}
    d = 0
    for c in s:
        if c in "([":
            d += 1
            counts[d] = 0
        elif c in ")]":
            d = max(0, d - 1)
        elif c in "*/":
            counts[d] = counts.get(d, 0) + 1
            best = max(best, counts[d])
        elif c in "+-=":
            counts[d] = 0
    return best


def check_string(ctx, case):
    from mathy_core.parser import ExpressionParser

    s = case["s"]
    kind, val = outcome(ExpressionParser(), s)
    ctx.count("parse_calls")
    ctx.count("outcome:" + kind)
    if kind == "internal":
        et, site = E.exc_site(val)
        det = {"error": repr(val)[:200], "length": len(s), "nesting": nesting(s), "longest_flat_muldiv_run": longest_muldiv_run(s)}
        small = dict(case)
        if len(s) > 200:
            small = {"s_repr": f"{s[:40]!r}...(len {len(s)})", "builder": case.get("builder")}
            small.update({k: v for k, v in case.items() if k != "s"})
            small["s"] = s
        return ctx.fail(("internal-error", et, site), case, det)
    if kind == "rejected":
        ctx.nontriv(s)
        ctx.sample({"s": s[:80], "raises": type(val).__name__})
        return
    aud = A.audit(val)
    if aud is not None:
        return ctx.fail(("malformed-tree",), case, {"audit": aud})
    ctx.sample({"s": s[:80], "tree": E.text_of(val)[:80] if len(s) < 200 else "(long)"})


def check_history(ctx, case):
    from mathy_core.parser import ExpressionParser

    used = ExpressionParser()
    failed_before = False
    nontrivial = False
    for i, s in enumerate(case["history"]):
        k1, v1 = outcome(used, s)
        k2, v2 = outcome(ExpressionParser(), s)
        ctx.count("history_calls")
        if k1 == "internal" or k2 == "internal":
            bad = v1 if k1 == "internal" else v2
            et, site = E.exc_site(bad)
            return ctx.fail(("internal-error", et, site), case, {"step": i, "string": s, "error": repr(bad)[:200]})
        if k1 != k2:
            return ctx.fail(("sticky-state", f"{k2}->{k1}"), case, {"step": i, "string": s, "fresh": k2, "used": k1, "used_error": repr(v1)[:120] if k1 != "ok" else None})
        if k1 == "ok":
            if A.sig(v1) != A.sig(v2):
                return ctx.fail(("sticky-state", "different-tree"), case, {"step": i, "string": s, "used": E.text_of(v1), "fresh": E.text_of(v2)})
            aud = A.audit(v1)
            if aud is not None:
                return ctx.fail(("malformed-tree-in-history",), case, {"step": i, "string": s, "audit": aud})
            if failed_before:
                nontrivial = True
        else:
            if type(v1) is not type(v2):
                return ctx.fail(("sticky-state", "different-exception"), case, {"step": i, "string": s, "used": type(v1).__name__, "fresh": type(v2).__name__})
            failed_before = True
    if nontrivial:
        ctx.nontriv(tuple(case["history"]))
    ctx.sample({"history": case["history"]}, cap=6)


def replay(ctx, case):
    if "history" in case:
        check_history(ctx, case)
    else:
        s = case["s"] if "s" in case else build_chain(case)
        check_string(ctx, {"s": s, **{k: v for k, v in case.items() if k != "s"}})


def build_chain(case):
    op, n, atom = case["chain_op"], case["chain_n"], case.get("atom", "x")
    return (atom + op) * n + atom


# (known finding F-C10-1 - RecursionError on flat product chains - was repaired in /repo fe7e3cd: no classifier is left, any
# internal error on an input of bounded nesting is a violation)
CLASSIFIERS = {}


@st.composite
def nested(draw, max_depth):
    d = draw(st.integers(1, max_depth))
    core = draw(st.one_of(G.expr_text(4), st.just("x"), G.token_soup))
    style = draw(st.integers(0, 3))
    s = core
    for i in range(d):
        o, c = ("(", ")") if (style == 0 or (style == 2 and i % 2)) else ("[", "]") if style in (1, 2) else ("sgn(", ")")
        w = draw(st.sampled_from(["", "", "1 + ", "2 * ", "-", "x", "3"]))
        t = draw(st.sampled_from(["", "", " + 1", "^2", " * y", "!"]))
        s = f"{w}{o}{s}{c}{t}"
    if draw(st.integers(0, 4)) == 0 and s:
        s = s[: draw(st.integers(0, len(s)))]
    return s


def string_strategy(ctx):
    depth = 40 if ctx.tier == "quick" else 100
    base = G.grammar_strings(10)
    uni = st.builds(lambda a, ch, i: a[: i % (len(a) + 1)] + ch + a[i % (len(a) + 1) :], base, st.characters(), st.integers(0, 50))
    trunc = st.builds(lambda a, i: a[: i % (len(a) + 1)], base, st.integers(0, 60))
    return st.one_of(base, base, G.token_soup, trunc, uni, nested(depth)).map(lambda s: {"s": s})


def run(ctx):
    # dedicated flat chains (deterministic)
    for op in ["+", "-", "*", "/", "=", "", " + ", " * ", " - "]:
        for n in (500, 1500, 3000, 20000):
            if op == "":
                s = "x" * (n + 1)
            else:
                s = build_chain({"chain_op": op, "chain_n": n})
            ctx.count("evaluations")
            ctx.count("flat_chains")
            check_string(ctx, {"s": s, "chain_op": op, "chain_n": n})
    # bounded-exhaustive: every sequence of <= 4 (quick) / 5 (thorough) tokens over a 16-token vocabulary
    import itertools

    vocab = ["x", "y", "2", "0.5", "+", "-", "*", "/", "^", "!", "=", "(", ")", "sgn", "?", " "]
    bound = 4 if ctx.tier == "quick" else 5
    k = 0
    for length in range(0, bound + 1):
        for seq in itertools.product(vocab, repeat=length):
            k += 1
            if k % ctx.nshards != ctx.shard:
                continue
            ctx.count("evaluations")
            ctx.count("exhaustive_strings")
            check_string(ctx, {"s": "".join(seq)})
    ctx.info["exhaustive_token_sequences"] = f"all {k} sequences of <= {bound} tokens over {vocab}"
    hyp_run(ctx, "strings", string_strategy(ctx), check_string, ctx.n(8000, 80000))
    pool = st.one_of(G.grammar_strings(8), st.sampled_from(["x + 1", "2x", "(", "x +", "4 / 2", "1.2.3", "x ? y", "", " ", "sgn(x)", "x = 2", "x y z", ")x(", "7 + 1 2", "7 + 12", "s gn(3)", "sgn(3)", "12 4", "x 2", "(((((( 1 +", "(1 + 2) * x", "4 * -(3)", "4 * -3"]))
    hist = st.lists(pool, min_size=2, max_size=8).flatmap(
        lambda xs: st.lists(st.integers(0, len(xs) - 1), min_size=0, max_size=4).map(lambda rep: {"history": xs + [xs[i] for i in rep]})
    )
    hyp_run(ctx, "histories", hist, check_history, ctx.n(1500, 12000))
    # deterministic long histories on one parser: a failure, then hundreds of distinct texts; repeated failures
    long1 = ["4x +"] + [f"{k}x + {k + 1}" for k in range(400)] + ["4x +", "x + 1"]
    long2 = ["(((((((((( 1 + "] * 40 + ["(1 + 2) * x", "4 * sgn(x)"] + ["sgn(sgn(sgn(sgn(sgn(sgn(sgn(sgn(1"] * 40 + ["4 * sgn(x)"]
    pairs = [("7 + 1 2", "7 + 12"), ("s gn(3)", "sgn(3)"), ("1. 5", "1.5"), ("4 * -(3)", "4 * -3"), ("2.0x + 1", "2x + 1"), ("x\t+ 1", "x + 1"), ("SGN(x)", "sgn(x)"), ("12 4", "124")]
    pair_histories = [[a, b, a, b] for a, b in pairs] + [[b, a, b, a] for a, b in pairs]
    for h in [long1, long2] + pair_histories:
        ctx.count("evaluations")
        ctx.count("long_histories")
        check_history(ctx, {"history": h})
    if ctx.tier == "thorough":
        from . import fuzz

        fuzz.campaign(ctx, "c10")
