"""Structural audits, signatures and context extraction for mathy expression trees.
Uses only left/right/parent links, node classes and payload attributes."""

BINARY = ("EqualExpression", "AddExpression", "SubtractExpression", "MultiplyExpression", "DivideExpression", "PowerExpression")
UNARY = ("NegateExpression", "FactorialExpression", "SgnExpression", "AbsExpression")
LEAF = ("ConstantExpression", "VariableExpression")


def kind(n):
    return type(n).__name__


def preorder(root):
    out = []
    stack = [root]
    while stack:
        n = stack.pop()
        out.append(n)
        if n.right is not None:
            stack.append(n.right)
        if n.left is not None:
            stack.append(n.left)
        if len(out) > 200000:
            raise RuntimeError("cycle")
    return out


def inorder(root):
    out = []

    def rec(n):
        if n is None:
            return
        rec(n.left)
        out.append(n)
        rec(n.right)

    rec(root)
    return out


def payload(n):
    k = kind(n)
    if k == "ConstantExpression":
        v = n.value
        if hasattr(v, "item") and hasattr(v, "dtype"):
            v = v.item()
        return (type(v).__name__, repr(v))
    if k == "VariableExpression":
        return ("var", n.identifier)
    return None


def sig(n):
    """Structural signature: class, payload, children."""
    if n is None:
        return None
    return (kind(n), payload(n), sig(n.left), sig(n.right))


def idsig(n):
    """Identity signature: object ids and parent ids too (for 'was not modified' claims)."""
    if n is None:
        return None
    return (
        id(n),
        kind(n),
        payload(n),
        n.id,
        id(n.parent) if n.parent is not None else None,
        getattr(n, "child_on_left", None),
        idsig(n.left),
        idsig(n.right),
    )


def audit(root):
    """None when the tree is well formed, else a short description of the first problem."""
    if root.parent is not None:
        return "root has a parent"
    seen = set()
    stack = [root]
    while stack:
        n = stack.pop()
        if id(n) in seen:
            return "node object occurs twice"
        seen.add(id(n))
        if len(seen) > 100000:
            return "cycle"
        k = kind(n)
        for side in ("left", "right"):
            c = getattr(n, side)
            if c is not None:
                if c.parent is not n:
                    return f"{side} child of {k} has a stale parent link"
                stack.append(c)
        if k in BINARY:
            if n.left is None or n.right is None:
                return f"{k} lacks an operand"
        elif k in UNARY:
            if (n.left is None) == (n.right is None):
                return f"{k} must have exactly one operand"
            child = n.left if n.left is not None else n.right
            if n.get_child() is not child:
                return f"{k} operand is on the wrong side for its child_on_left flag"
        elif k in LEAF:
            if n.left is not None or n.right is not None:
                return f"{k} has children"
            if k == "ConstantExpression" and n.value is None:
                return "constant without a value"
            if k == "VariableExpression" and not isinstance(n.identifier, str):
                return "variable without an identifier"
        else:
            return f"unknown node class {k}"
    return None


def variables(root):
    return {n.identifier for n in preorder(root) if kind(n) == "VariableExpression"}


def path_of(node):
    """Sequence of 'L'/'R' turns from the root to node (via parent links)."""
    turns = []
    n = node
    while n.parent is not None:
        p = n.parent
        if p.left is n:
            turns.append("L")
        elif p.right is n:
            turns.append("R")
        else:
            raise RuntimeError("node is not a child of its parent")
        n = p
    return "".join(reversed(turns))


def follow(root, path):
    n = root
    for t in path:
        n = n.left if t == "L" else n.right
        if n is None:
            return None
    return n


def context(node):
    """Subtrees hanging off the path root -> node.parent, in left-to-right order."""
    left_side = []
    right_side = []
    n = node
    while n.parent is not None:
        p = n.parent
        if p.left is n:
            if p.right is not None:
                right_side.append(p.right)
        else:
            if p.left is not None:
                left_side.append(p.left)
        n = p
    # left_side collected bottom-up: the outermost is leftmost
    return list(reversed(left_side)) + right_side


def leaf_spans(root):
    """For every node: (first_leaf_index, last_leaf_index) in the in-order leaf sequence."""
    spans = {}
    counter = [0]

    def rec(n):
        if n.left is None and n.right is None:
            spans[id(n)] = (counter[0], counter[0])
            counter[0] += 1
            return spans[id(n)]
        lo = hi = None
        for c in (n.left, n.right):
            if c is not None:
                a, b = rec(c)
                lo = a if lo is None else lo
                hi = b
        spans[id(n)] = (lo, hi)
        return spans[id(n)]

    rec(root)
    return spans


def find_in_order(result_root, wanted_sigs):
    """Greedy left-to-right embedding: each wanted signature must occur as a subtree of
    result_root, disjoint and in the given order. Returns index of the first one that cannot be
    placed, or None when all are found."""
    if not wanted_sigs:
        return None
    nodes = preorder(result_root)
    spans = leaf_spans(result_root)
    sigs = {}
    # signature of every node, computed bottom-up once

    def rec(n):
        s = (kind(n), payload(n), rec(n.left) if n.left is not None else None, rec(n.right) if n.right is not None else None)
        sigs[id(n)] = s
        return s

    rec(result_root)
    by_sig = {}
    for n in nodes:
        by_sig.setdefault(sigs[id(n)], []).append(spans[id(n)])
    pos = -1
    for i, w in enumerate(wanted_sigs):
        cands = sorted(sp for sp in by_sig.get(w, []) if sp[0] > pos)
        if not cands:
            return i
        pos = cands[0][1]
    return None


def needs_grouping(root):
    """True if some operator node has a non-leaf child (its printed form needs a grouping decision)."""
    for n in preorder(root):
        for c in (n.left, n.right):
            if c is not None and (c.left is not None or c.right is not None):
                return True
    return False
