"""atheris (libFuzzer) campaigns for the thorough tier of C03 / C10 / C11.

`campaign(ctx, which)` runs `python -m vpm.fuzz <which> ...` in a subprocess (atheris takes over the
process): bytes are decoded into symbols of the tokenizer alphabet, the property's own oracle runs
INSIDE the target (probe mode: failures are recorded, not raised, so the campaign continues behind a
finding), and every recorded input is then re-checked by the parent through the normal check function,
so buckets, known findings and replay files work exactly as for generated cases."""
import json
import os
import shutil
import subprocess
import sys
import tempfile

SYMBOLS = list("0123456789") + ["."] + list("xyzab") + list("+-*/^!=()[]") + [" ", "sgn", "–", "\t", "g", "s", "n", "2x", "^2", "(x", " + ", " * ", " / ", " = "]
FOREIGN = ["_", ",", "?", "é", "×", "\x00", "{", "~", "١"]


def decode(data, which):
    syms = SYMBOLS + (FOREIGN if which in ("c11", "c10") else [])
    return "".join(syms[b % len(syms)] for b in data[:48])


def seeds_for(which):
    base = ["4x^2 + 3", "8/4*2", "(x + 1)(y - 2)", "sgn(-x) * 3!", "x = 2y + 1", "-(a + b)^2", "xy^2", "2^-1", "1.5x^0.5"]
    return base


def encode(s):
    """Best-effort inverse of decode for the seed corpus."""
    out = bytearray()
    i = 0
    while i < len(s):
        for j, sym in sorted(enumerate(SYMBOLS), key=lambda t: -len(t[1])):
            if s.startswith(sym, i):
                out.append(j)
                i += len(sym)
                break
        else:
            i += 1
    return bytes(out)


def campaign(ctx, which, runs_quick=0, runs_thorough=150000):
    runs = int((runs_thorough if ctx.tier == "thorough" else runs_quick) * ctx.scale)
    if runs <= 0:
        return
    try:
        import atheris  # noqa: F401
    except ImportError:
        ctx.info["atheris"] = "not importable; fuzz campaign skipped"
        return
    tmp = tempfile.mkdtemp(prefix="vpmfuzz.")
    try:
        corpus = os.path.join(tmp, "corpus")
        os.makedirs(corpus)
        if ctx.shard % 2 == 1:  # odd shards start from a few valid inputs, even shards from an empty corpus
            for i, s in enumerate(seeds_for(which)):
                with open(os.path.join(corpus, f"seed{i}"), "wb") as f:
                    f.write(encode(s))
        findings = os.path.join(tmp, "findings.jsonl")
        stats = os.path.join(tmp, "stats.json")
        cmd = [sys.executable, "-m", "vpm.fuzz", which, findings, stats, corpus, f"-runs={runs}", f"-seed={ctx.hseed('fuzz-' + which) or 1}", "-max_len=48", "-verbosity=0", "-print_final_stats=0"]
        p = subprocess.run(cmd, stdout=subprocess.PIPE, stderr=subprocess.STDOUT, cwd=tmp, timeout=3600)
        ctx.info.setdefault("fuzz", {})[f"shard{ctx.shard}"] = {"runs_requested": runs, "exit": p.returncode, "corpus": "seeded" if ctx.shard % 2 else "empty"}
        if os.path.exists(stats):
            with open(stats) as f:
                st = json.load(f)
            ctx.count("fuzz_executions", st.get("executions", 0))
            ctx.count("evaluations", st.get("executions", 0))
            ctx.count("fuzz_distinct_inputs", st.get("distinct", 0))
            for k, v in st.get("known_hits", {}).items():
                ctx.known_hits[k] += v
            for h in st.get("nontrivial_hashes", []):
                ctx.nontrivial.add(h)
        elif p.returncode != 0:
            raise RuntimeError("fuzz target failed:\n" + p.stdout.decode(errors="replace")[-2000:])
        recorded = []
        if os.path.exists(findings):
            with open(findings) as f:
                recorded = [json.loads(l) for l in f if l.strip()]
        ctx.count("fuzz_recorded_failures", len(recorded))
        mod = __import__("vpm." + which, fromlist=["x"])
        for rec in recorded:
            mod.check_string(ctx, {"s": rec["s"], "from": "atheris"})
    finally:
        shutil.rmtree(tmp, ignore_errors=True)


def target_main(argv):
    which, findings_path, stats_path = argv[1], argv[2], argv[3]
    rest = argv[4:]
    import atheris

    with atheris.instrument_imports(include=["mathy_core"]):
        import mathy_core.parser  # noqa: F401
        import mathy_core.tokenizer  # noqa: F401
    from . import runner

    mod = __import__("vpm." + which, fromlist=["x"])
    fl = runner.load_findings(which.upper(), mod)
    ctx = runner.Ctx(which.upper(), "thorough", 0, findings=fl, mode="probe")
    seen_buckets = set()
    seen_inputs = set()
    state = {"n": 0}

    def flush():
        with open(stats_path, "w") as f:
            json.dump({"executions": state["n"], "distinct": len(seen_inputs), "known_hits": dict(ctx.known_hits), "nontrivial_hashes": list(ctx.nontrivial)[:200000]}, f)

    def one(data):
        state["n"] += 1
        s = decode(data, which)
        seen_inputs.add(hash(s))
        before = len(ctx.probe_failures)
        mod.check_string(ctx, {"s": s})
        for bk, fid in ctx.probe_failures[before:]:
            if fid is None and bk not in seen_buckets:
                seen_buckets.add(bk)
                with open(findings_path, "a") as f:
                    f.write(json.dumps({"s": s, "bucket": bk}) + "\n")
        del ctx.probe_failures[:]
        ctx.samples.clear()
        if state["n"] % 5000 == 0:
            flush()

    import atexit

    atheris.Setup([argv[0]] + rest, one)
    try:
        atheris.Fuzz()
    finally:
        flush()


if __name__ == "__main__":
    sys.set_int_max_str_digits(0)
    import warnings

    warnings.filterwarnings("ignore")
    target_main(sys.argv)
