"""Documented rule schemas (C08): independent construction of left- and right-hand sides as
reference ASTs, rendering with explicit parentheses, AC-normal forms and shape matchers.
AST: ("c", number) ("v", name) ("neg", e) ("sgn", e) (op, l, r) with op in + - * / ^ ="""
from fractions import Fraction

from hypothesis import strategies as st

from . import exact as X


# ------------------------------------------------------------------ AST helpers
def C(v):
    return ("c", v)


def V(n):
    return ("v", n)


def term(c, v, e=None):
    """Natural term c*v^e as the parser builds it (coefficient None = absent)."""
    core = V(v) if e is None else ("^", V(v), C(e))
    return core if c is None else ("*", C(c), core)


def num_text(v):
    return repr(v) if isinstance(v, float) else str(v)


def text(a):
    k = a[0]
    if k == "c":
        t = num_text(a[1])
        return t
    if k == "v":
        return a[1]
    if k == "neg":
        return "-(" + text(a[1]) + ")"
    if k == "sgn":
        return "sgn(" + text(a[1]) + ")"

    def opnd(x):
        if x[0] == "v" or (x[0] == "c" and x[1] >= 0):
            return text(x)
        return "(" + text(x) + ")"

    if k == "^":
        return opnd(a[1]) + "^" + opnd(a[2])
    return opnd(a[1]) + " " + k + " " + opnd(a[2])


def subst(ctx, hole_value):
    if ctx == "HOLE":
        return hole_value
    if isinstance(ctx, tuple):
        return tuple(subst(x, hole_value) for x in ctx)
    return ctx


def hole_path(ctx):
    """L/R turns from the root of ctx to the hole (unary nodes hold their operand on the right)."""
    if ctx == "HOLE":
        return ""
    if not isinstance(ctx, tuple) or ctx[0] in ("c", "v"):
        return None
    if ctx[0] in ("neg", "sgn"):
        p = hole_path(ctx[1])
        return None if p is None else "R" + p
    pl = hole_path(ctx[1])
    if pl is not None:
        return "L" + pl
    pr = hole_path(ctx[2])
    return None if pr is None else "R" + pr


def tree_to_ast(n):
    k = type(n).__name__
    if k == "ConstantExpression":
        v = n.value
        if hasattr(v, "item") and hasattr(v, "dtype"):
            v = v.item()
        return ("c", v)
    if k == "VariableExpression":
        return ("v", n.identifier)
    if k in ("NegateExpression", "SgnExpression", "FactorialExpression", "AbsExpression"):
        ch = n.left if n.left is not None else n.right
        return ({"NegateExpression": "neg", "SgnExpression": "sgn", "FactorialExpression": "!", "AbsExpression": "abs"}[k], tree_to_ast(ch))
    op = {"AddExpression": "+", "SubtractExpression": "-", "MultiplyExpression": "*", "DivideExpression": "/", "PowerExpression": "^", "EqualExpression": "="}[k]
    return (op, tree_to_ast(n.left), tree_to_ast(n.right))


# ------------------------------------------------------------------ AC-normal form
def norm(a):
    """Flatten and sort + and * chains; everything else keeps its structure. Constants compare by
    numeric value (2 == 2.0)."""
    k = a[0]
    if k == "c":
        try:
            return ("c", X.const_value(a[1]))
        except (X.NonFinite, X.Malformed):
            return ("c", repr(a[1]))
    if k == "v":
        return a
    if k in ("+", "*"):
        items = []

        def collect(x):
            if x[0] == k:
                collect(x[1])
                collect(x[2])
            else:
                items.append(norm(x))

        collect(a)
        return (k, tuple(sorted(items, key=repr)))
    if len(a) == 2:
        return (k, norm(a[1]))
    return (k, norm(a[1]), norm(a[2]))


def operands(n, op):
    """Multiset (list) of operands of a normal form under op."""
    return list(n[1]) if n[0] == op else [n]


def remove_all(pool, items):
    """Remove each item once from list pool; returns remaining list or None if one is missing."""
    pool = list(pool)
    for it in items:
        if it in pool:
            pool.remove(it)
        else:
            return None
    return pool


def is_const(n):
    return n[0] == "c" and isinstance(n[1], Fraction)


def close(a, b, ulps=8):
    """Fractions equal up to a few ulps of binary64 rounding."""
    if a == b:
        return True
    scale = max(abs(a), abs(b))
    return abs(a - b) <= ulps * scale / 2**52


# ------------------------------------------------------------------ parameter strategies
VARS = list("xyzabn")
var = st.sampled_from(VARS)
coef = st.one_of(st.integers(1, 12), st.integers(-9, -1), st.sampled_from([0.5, 1.5, 2.5, -0.5, 0.25, 0.1, 2.7, 100, 36]))
pos_coef = st.one_of(st.integers(1, 12), st.sampled_from([0.5, 1.5, 2.5, 0.1, 36]))
expo = st.one_of(st.integers(0, 6), st.sampled_from([-1, -2, 0.5, 1.5, 2.5]))


@st.composite
def atom(draw):
    """Sub-expression without a top-level + or - (so it cannot change which form a schema has)."""
    k = draw(st.integers(0, 9))
    if k <= 3:
        return V(draw(var))
    if k <= 5:
        return C(draw(pos_coef))
    if k == 6:
        return ("^", V(draw(var)), C(draw(st.integers(2, 4))))
    if k == 7:
        return ("sgn", V(draw(var)))
    if k == 8:
        return ("/", V(draw(var)), C(draw(st.integers(2, 5))))
    return ("^", ("+", V(draw(var)), C(draw(st.integers(1, 3)))), C(2))


@st.composite
def anyexp(draw):
    k = draw(st.integers(0, 5))
    if k <= 2:
        return draw(atom())
    if k == 3:
        return ("+", draw(atom()), draw(atom()))
    if k == 4:
        return ("-", draw(atom()), draw(atom()))
    return term(draw(coef), draw(var), draw(st.one_of(st.none(), st.integers(2, 3))))


CONTEXTS_ANY = [
    "HOLE", "HOLE", ("+", "HOLE", C(7)), ("+", C(7), "HOLE"), ("*", C(3), "HOLE"), ("*", "HOLE", V("w")), ("neg", "HOLE"), ("^", "HOLE", C(2)),
    ("-", C(5), "HOLE"), ("-", "HOLE", C(5)), ("/", C(1), "HOLE"), ("/", "HOLE", C(4)), ("=", "HOLE", C(1)), ("=", V("w"), "HOLE"), ("sgn", "HOLE"),
    ("+", ("*", C(2), ("neg", "HOLE")), V("w")), ("=", ("+", V("w"), ("/", "HOLE", C(3))), C(0)), ("^", C(2), "HOLE"), ("-", ("neg", "HOLE"), ("^", V("w"), C(2))),
]
CONTEXTS_RS = ["HOLE", "HOLE", ("=", "HOLE", C(1)), ("=", V("w"), "HOLE"), ("+", "HOLE", C(7)), ("+", V("w"), "HOLE"), ("=", ("+", "HOLE", V("w")), C(3))]
CONTEXTS_ROOT = ["HOLE"]
