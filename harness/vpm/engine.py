"""Rule-application engine shared by C01, C02, C06, C07, C09: builds G-tree trees from JSON-able
cases and applies rules the way search agents do (on a clone_from_root copy)."""
from . import audit as A
from . import exact as X


def rule_instances():
    from mathy_core import rules as R

    return [
        ("AG", R.AssociativeSwapRule()),
        ("CS1", R.CommutativeSwapRule(preferred=True)),
        ("CS0", R.CommutativeSwapRule(preferred=False)),
        ("CA", R.ConstantsSimplifyRule()),
        ("DF0", R.DistributiveFactorOutRule(constants=False)),
        ("DF1", R.DistributiveFactorOutRule(constants=True)),
        ("DM", R.DistributiveMultiplyRule()),
        ("MI", R.MultiplicativeInverseRule()),
        ("RS", R.RestateSubtractionRule()),
        ("VM", R.VariableMultiplyRule()),
        ("BM", R.BalancedMoveRule()),
    ]


RULE_NAMES = ["AG", "CS1", "CS0", "CA", "DF0", "DF1", "DM", "MI", "RS", "VM", "BM"]
_rules = None


def rules():
    global _rules
    if _rules is None:
        _rules = rule_instances()
    return _rules


def parse_errors():
    from mathy_core.parser import ParserException

    return (ParserException, ValueError)


def parse(text):
    """Fresh parser, fresh tree. Returns None when the text is rejected."""
    from mathy_core.parser import ExpressionParser

    try:
        return ExpressionParser().parse(text)
    except parse_errors():
        return None
    except RecursionError:
        return None


def arrangement(rule, node):
    """The rule's own label for the local shape (histograms and bucket names only)."""
    gt = getattr(rule, "get_type", None)
    if gt is None:
        return "-"
    try:
        t = gt(node)
    except Exception:
        return "?"
    if isinstance(t, tuple):
        t = t[0]
    return str(t)


def applicable_nodes(rule, root):
    """In-order list of nodes where can_apply_to is true (exceptions propagate)."""
    return [n for n in A.inorder(root) if rule.can_apply_to(n)]


class Applied:
    __slots__ = ("source_root", "source_node", "target", "target_root", "result", "result_root", "arrangement", "fresh_consts", "error", "target_sig_before", "target_ids")


def apply(rule, node):
    """Apply `rule` at `node` the way agents do. Never raises for failures of the code under
    test: ap.error carries the exception."""
    ap = Applied()
    ap.source_node = node
    ap.source_root = _root(node)
    ap.error = None
    ap.result = ap.result_root = None
    ap.fresh_consts = []
    ap.target_sig_before = None
    ap.target_ids = set()
    try:
        ap.target = node.clone_from_root()
    except Exception as e:  # clone_from_root failing is C13's business; report as error here
        ap.error = e
        ap.target = ap.target_root = None
        ap.arrangement = "?"
        return ap
    ap.target_root = _root(ap.target)
    ap.arrangement = arrangement(rule, ap.target)
    before_ids = {id(n) for n in A.preorder(ap.target_root)}
    ap.target_ids = before_ids
    ap.target_sig_before = A.idsig(ap.target_root)
    try:
        change = rule.apply_to(ap.target)
        ap.result = change.result
    except Exception as e:
        ap.error = e
        return ap
    if ap.result is None or not hasattr(ap.result, "left"):
        return ap
    ap.result_root = _root(ap.result)
    try:
        # constants the rule created (or whose payload it rewrote in place on fresh clones)
        ap.fresh_consts = [n for n in A.preorder(ap.result_root) if A.kind(n) == "ConstantExpression" and id(n) not in before_ids]
    except RuntimeError:
        ap.fresh_consts = []
    return ap


def _root(n):
    seen = 0
    while n.parent is not None:
        n = n.parent
        seen += 1
        if seen > 100000:
            raise RuntimeError("parent cycle")
    return n


MAX_CONST = 10**10


def has_huge_constant(root):
    """Constants beyond 10^10 are outside the rule checks' domain: util.factor() does trial
    division up to sqrt(value), so can_apply_to takes minutes on 10^18 (slow, not wrong)."""
    for n in A.preorder(root):
        if A.kind(n) == "ConstantExpression":
            try:
                if abs(float(n.value)) > MAX_CONST:
                    return True
            except (TypeError, ValueError, OverflowError):
                return True
    return False


def has_unprintable_constant(root):
    """An integer so large that printing it would take minutes."""
    for n in A.preorder(root):
        if A.kind(n) == "ConstantExpression":
            v = n.value
            if hasattr(v, "item") and hasattr(v, "dtype"):
                v = v.item()
            if isinstance(v, int) and v.bit_length() > 20000:
                return True
    return False


def build_tree(ctx, case):
    """G-tree: parse(text) then the case's pre-rewrites. Returns root or None (rejected / excluded)."""
    root = parse(case["text"])
    if root is None:
        ctx.count("tree:rejected-text")
        return None
    if X.has_nonfinite(root):
        ctx.count("excluded_nonfinite")
        return None
    if has_huge_constant(root):
        ctx.count("excluded_huge_constant")
        return None
    rs = rules()
    for ri, ni in case.get("pre", []):
        name, rule = rs[ri % len(rs)]
        try:
            nodes = applicable_nodes(rule, root)
        except Exception:
            ctx.count("pre:can_apply-raised")
            break
        if not nodes:
            ctx.count("pre:skipped")
            continue
        ap = apply(rule, nodes[ni % len(nodes)])
        if ap.error is not None or ap.result_root is None:
            ctx.count("pre:apply-raised")
            break
        if A.audit(ap.result_root) is not None:
            ctx.count("pre:malformed-result")
            break
        if X.has_nonfinite(ap.result_root):
            ctx.count("excluded_nonfinite")
            break
        if has_huge_constant(ap.result_root):
            ctx.count("excluded_huge_constant")
            break
        root = ap.result_root
        ctx.count("pre:applied")
    return root


def evaluate_disagrees(root, exact_eval=None):
    """Cross-check of the public evaluate() against the link structure after a rewrite: returns a witness
    dict when evaluate() returns a finite number that differs from the exact value of the tree (walked over
    left/right links) at a small integer assignment; None otherwise (also when either side is undefined)."""
    from fractions import Fraction

    vs = sorted(A.variables(root))
    for base in (2, 3):
        env = {v: base + i for i, v in enumerate(vs)}
        try:
            r = X.try_eval(root, {k: Fraction(v) for k, v in env.items()})
        except (X.NonFinite, X.Malformed):
            return None
        if r is None or r.is_eq or r.inexact:
            continue
        want = r.value
        if abs(want) > 10**12:
            continue
        # float evaluation may only be compared with the exact value when no intermediate result is large enough
        # for rounding and cancellation to matter: every sub-expression must stay below 10^6 in magnitude
        small = True
        for sub in A.preorder(root):
            if sub.left is None and sub.right is None:
                continue
            try:
                rs = X.try_eval(sub, {k: Fraction(v) for k, v in env.items()})
            except (X.NonFinite, X.Malformed):
                rs = None
            if rs is None or rs.is_eq or abs(rs.value) > 10**6:
                small = False
                break
        if not small:
            continue
        # evaluate() works in doubles: where some sgn argument is zero up to rounding, its sign legitimately differs from
        # the sign of the exact value (sgn(-0.010000000000000002 + 0.1 * 0.1) is 0 in doubles, -1 exactly)
        from . import equiv as _Q

        if _Q.near_discontinuity(root, {k: Fraction(v) for k, v in env.items()}):
            continue
        try:
            got = root.evaluate(env)
        except Exception:
            continue
        try:
            g = float(got)
        except (TypeError, ValueError, OverflowError):
            continue
        if g != g or g in (float("inf"), float("-inf")):
            continue
        w = float(want)
        if abs(g - w) > 1e-6 * max(1.0, abs(w)):
            return {"assignment": env, "evaluate_returned": repr(got), "value_of_the_tree": str(want)}
    return None


def text_of(root):
    try:
        if has_unprintable_constant(root):
            return "<tree with an enormous integer constant>"
        return str(root)
    except Exception as e:
        return f"<unprintable: {type(e).__name__}>"


def raised_in_code_under_test(e):
    """True when the innermost frame of the exception is inside mathy_core (the code under test raised), False when the
    harness itself did (which must stay a harness error, exit 2)."""
    tb = e.__traceback__
    last = None
    while tb is not None:
        last = tb.tb_frame.f_code.co_filename
        tb = tb.tb_next
    return last is not None and "mathy_core" in last and "/harness/" not in last


def exc_site(e):
    """(type name, innermost frame inside mathy_core) for bucketing exceptions by root cause."""
    site = "?"
    tb = e.__traceback__
    while tb is not None:
        code = tb.tb_frame.f_code
        if "mathy_core" in code.co_filename:
            site = f"{code.co_filename.split('mathy_core/')[-1]}:{getattr(code, 'co_qualname', code.co_name)}"
        tb = tb.tb_next
    return type(e).__name__, site
