"""Equivalence oracles shared by C01, C02 and C09: value preservation for expressions, solution-set
preservation for equations (true solutions are computed, not hoped for)."""
from fractions import Fraction

from . import audit as A
from . import exact as X
from . import gen as G

INEXACT_REL = 1e-9
MAX_COND = 1e6


def is_equation(root):
    return A.kind(root) == "EqualExpression"


def _tol_value(after_root, a, fresh, ra, rb, side=None):
    """Allowed difference between a before-value and an after-value at assignment a.
    Returns (tolerance Fraction, skip_reason or None)."""
    va = ra.value if side is None else ra.value[side]
    vb = rb.value if side is None else rb.value[side]
    tol = X.fold_tolerance(after_root, a, fresh, va, side=side) if fresh else Fraction(0)
    if tol is None:
        return None, "tolerance-undefined"
    if ra.inexact or rb.inexact:
        cond = max(ra.cond, rb.cond)
        if not cond < MAX_COND:
            return None, "ill-conditioned-inexact"
        scale = max(abs(va), abs(vb))
        tol = max(tol, Fraction(INEXACT_REL) * Fraction(cond) * scale)
    return tol, None


def near_discontinuity(tree, a):
    """Points where a one-ulp difference in a folded constant or in a float power legitimately changes the value of the whole
    expression by an arbitrary amount, so that no derived tolerance applies: the argument of some sgn node (discontinuous at
    0), some divisor, or the base of a power with a negative or non-integer exponent (poles / infinite slope at 0) is zero UP TO
    ROUNDING - |value| <= 1e-9 x the largest magnitude inside that argument (e.g. 0.3 * 1.5x + 15 * 1.5 * 0.1 at x = -5 is
    -2.25 + 2.25 plus rounding). Such points are skipped (and counted) whenever rounding is in play."""
    for n in A.preorder(tree):
        k = A.kind(n)
        if k == "SgnExpression":
            child = n.left if n.left is not None else n.right
        elif k == "DivideExpression":
            child = n.right
        elif k == "PowerExpression":
            child = n.left
            try:
                e = X.try_eval(n.right, a) if n.right is not None else None
            except (X.NonFinite, X.Malformed):
                return True
            if e is not None and not e.is_eq and e.value.denominator == 1 and e.value >= 0:
                continue
        else:
            continue
        if child is None:
            continue
        try:
            r = X.try_eval(child, a)
        except (X.NonFinite, X.Malformed):
            return True
        if r is None or r.is_eq:
            continue
        scale = Fraction(1)
        for m in A.preorder(child):
            try:
                rm = X.try_eval(m, a)
            except (X.NonFinite, X.Malformed):
                rm = None
            if rm is not None and not rm.is_eq and abs(rm.value) > scale:
                scale = abs(rm.value)
        if abs(r.value) * 10**9 <= scale:
            return True
    return False


def compare_expressions(ctx, before, after, fresh, assignments, sides=None):
    """Value preservation at the given assignments.
    sides: None for plain expressions; for equations a list of (before_side, after_side) index
    pairs (1 = left, 2 = right) to compare. Returns (verdict, info):
    verdict in {"ok", "mismatch", "kind"}; info has compared/skipped counts or the witness."""
    compared = 0
    rounded = 0
    for a in assignments:
        try:
            rb = X.try_eval(before, a)
            ra = X.try_eval(after, a)
        except X.NonFinite:
            ctx.count("excluded_nonfinite")
            return "ok", {"compared": compared}
        if rb is None or ra is None:
            ctx.count("assignments_skipped_undefined")
            continue
        if rb.is_eq != ra.is_eq:
            return "kind", {"before_is_equation": rb.is_eq, "after_is_equation": ra.is_eq}
        if rb.is_eq and sides == "multiset":
            # an equation flip (possibly of an inner equation of a chain a = b = c): the same sides in another order
            if sorted(sides_of(rb.value)) == sorted(sides_of(ra.value)):
                compared += 1
                continue
            return "mismatch", {"assignment": G.show_assignment(a), "before": _show(rb.value), "after": _show(ra.value), "allowed_difference": 0.0, "side": "all"}
        pairs = [(None, None)] if not rb.is_eq else (sides or [(1, 1), (2, 2)])
        for sb, sa in pairs:
            vb = rb.value if sb is None else rb.value[sb]
            va = ra.value if sa is None else ra.value[sa]
            if vb == va:
                compared += 1
                continue
            if isinstance(vb, tuple) or isinstance(va, tuple):
                # a side that is itself an equation (chains): flatten and compare side by side, each within the
                # rounding allowance derived for that side
                fb, fa = sides_of(vb), sides_of(va)
                tols = flat_fold_tolerances(after, a, fresh, sides_of(ra.value)) if fresh else None
                if len(fb) == len(fa):
                    all_flat = sides_of(ra.value)
                    ok = True
                    for x, y in zip(fb, fa):
                        if x == y:
                            continue
                        t = None
                        if tols is not None:
                            # locate this side among all flattened sides of the rewritten equation
                            idx = [i for i, v in enumerate(all_flat) if v == y]
                            t = max((tols[i] for i in idx), default=None) if idx else None
                        if t is None or abs(x - y) > t:
                            ok = False
                            break
                    if ok:
                        compared += 1
                        continue
                return "mismatch", {"assignment": G.show_assignment(a), "before": _show(vb), "after": _show(va), "allowed_difference": 0.0, "side": sb}
            if sb is None:
                tol, skip = _tol_value(after, a, fresh, ra, rb)
            else:
                # tolerance for one side of an equation
                tol = X.fold_tolerance(after, a, fresh, va, side=sa) if fresh else Fraction(0)
                skip = None
                if tol is None:
                    skip = "tolerance-undefined"
                elif ra.inexact or rb.inexact:
                    cond = max(ra.cond, rb.cond)
                    if not cond < MAX_COND:
                        skip = "ill-conditioned-inexact"
                    else:
                        tol = max(tol, Fraction(INEXACT_REL) * Fraction(cond) * max(abs(va), abs(vb)))
            if skip:
                ctx.count("assignments_skipped_" + skip)
                continue
            if abs(va - vb) <= tol:
                compared += 1
                rounded += 1
                continue
            if (fresh or ra.inexact or rb.inexact) and (near_discontinuity(before, a) or near_discontinuity(after, a)):
                ctx.count("assignments_skipped_sgn-argument-zero-up-to-rounding")
                continue
            return "mismatch", {
                "assignment": G.show_assignment(a),
                "before": _show(vb),
                "after": _show(va),
                "allowed_difference": float(tol),
                "side": sb,
            }
    ctx.count("comparisons", compared)
    ctx.count("comparisons_within_fold_rounding", rounded)
    return "ok", {"compared": compared}


def flat_fold_tolerances(after, a, fresh, base_flat):
    """Per flattened side of an equation (chain): 16 ulp x perturbation sensitivity to the fresh constants.
    None when a perturbed evaluation is undefined."""
    S = [Fraction(0)] * len(base_flat)
    for c in fresh:
        try:
            v = X.const_value(c.value)
        except (X.NonFinite, X.Malformed):
            return None
        if v == 0 or (v.denominator == 1 and not isinstance(X._plain(c.value), float)):
            continue
        r = X.try_eval(after, a, {id(c): v * (1 + X.ETA)})
        if r is None:
            return None
        flat = sides_of(r.value)
        if len(flat) != len(base_flat):
            return None
        S = [s_ + abs(p - q) / X.ETA for s_, p, q in zip(S, flat, base_flat)]
    return [16 * X.ULP * s_ for s_ in S]


def close_enough(x, y):
    return x == y or abs(x - y) <= max(abs(x), abs(y)) / 10**12


def _show(v):
    if isinstance(v, tuple):
        return [_show(v[1]), _show(v[2])]
    if v.denominator == 1:
        return str(v.numerator) if abs(v.numerator) < 10**30 else f"{float(v):.17g}"
    return f"{v.numerator}/{v.denominator}" if v.denominator < 10**12 and abs(v.numerator) < 10**18 else f"{float(v):.17g}"


# ------------------------------------------------------------------ equations
def sides_of(value):
    """Flat list of the side values of an equation value; chains a = b = c give three sides."""
    if isinstance(value, tuple):
        return sides_of(value[1]) + sides_of(value[2])
    return [value]


def scalar_residual(value):
    """L - R for a two-sided equation; for a chain the sum of |adjacent differences| (zero iff the chain holds)."""
    s = sides_of(value)
    if len(s) == 2:
        return s[0] - s[1]
    return sum((abs(x - y) for x, y in zip(s, s[1:])), Fraction(0))


def residual(root, a):
    """(residual, Result) at assignment a, or (None, None) when undefined / inexact."""
    r = X.try_eval(root, a)
    if r is None or not r.is_eq:
        return None, r
    return scalar_residual(r.value), r


def affine_solutions(root, varnames, bases):
    """True solutions of an equation found by solving along each variable in which the residual
    is affine (others fixed by each base assignment). Yields (assignment, variable)."""
    out = []
    for base in bases:
        for x in sorted(varnames):
            pts = []
            ok = True
            for t in (0, 1, 2, 5):
                a = dict(base)
                a[x] = Fraction(t)
                r, res = residual(root, a)
                if r is None or res.inexact:
                    ok = False
                    break
                pts.append(r)
            if not ok:
                continue
            r0, r1, r2, r5 = pts
            slope = r1 - r0
            if r2 - r1 != slope or r5 - r0 != 5 * slope or slope == 0:
                continue
            a = dict(base)
            a[x] = -r0 / slope
            r, res = residual(root, a)
            if r is not None and r == 0 and not res.inexact:
                out.append((a, x))
    return out


def divides_by_zero_constant(root):
    """Count of divisions whose divisor is an exactly-zero constant (possibly negated)."""
    n = 0
    for d in A.preorder(root):
        if A.kind(d) == "DivideExpression" and d.right is not None:
            r = d.right
            while A.kind(r) == "NegateExpression":
                r = r.left if r.left is not None else r.right
                if r is None:
                    break
            if r is not None and A.kind(r) == "ConstantExpression":
                try:
                    if X.const_value(r.value) == 0:
                        n += 1
                except (X.NonFinite, X.Malformed):
                    pass
    return n


def compare_equations(ctx, before, after, fresh, assignments, planted=None, balanced_move=True):
    """Solution-set preservation. Returns (verdict, info); verdict in
    {"ok", "not-equation", "divides-by-zero", "solution-lost", "solution-added"}."""
    if not is_equation(after):
        return "not-equation", {"result_kind": A.kind(after)}
    # "a balanced move never divides by zero": only that rule introduces divisions; other rules may legitimately turn
    # an already-zero divisor such as (0 + 0) into the constant 0
    if balanced_move and divides_by_zero_constant(after) > divides_by_zero_constant(before):
        return "divides-by-zero", {}
    vs = A.variables(before) | A.variables(after)
    bases = assignments[:2]
    try:
        sols_before = affine_solutions(before, vs, bases)
        sols_after = affine_solutions(after, vs, bases)
    except X.NonFinite:
        ctx.count("excluded_nonfinite")
        return "ok", {"solutions": 0}
    points = []
    if planted is not None:
        points.append((planted, "planted"))
    points += [(a, f"solved-before:{x}") for a, x in sols_before]
    points += [(a, f"solved-after:{x}") for a, x in sols_after]
    points += [(a, "generic") for a in assignments]
    true_points = 0
    false_points = 0
    for a, origin in points:
        a = {v: a.get(v, Fraction(1)) for v in vs}
        try:
            b, rb = residual(before, a)
            c, rc = residual(after, a)
        except X.NonFinite:
            ctx.count("excluded_nonfinite")
            return "ok", {"solutions": true_points}
        if b is None or c is None:
            ctx.count("points_skipped_undefined")
            continue
        if rb.inexact or rc.inexact:
            ctx.count("points_skipped_inexact")
            continue
        tol = X.fold_tolerance(after, a, fresh, c) if fresh else Fraction(0)
        if tol is None:
            ctx.count("points_skipped_tolerance-undefined")
            continue
        if fresh and (near_discontinuity(before, a) or near_discontinuity(after, a)):
            ctx.count("points_skipped_sgn-argument-zero-up-to-rounding")
            continue
        if origin.startswith("solved-after"):
            # a is an exact solution of the REWRITTEN equation; the original's residual there may differ from the
            # rewritten one's (zero) only by what rounding of the freshly folded constants explains at this very point
            # (a root that exists only through rounding - e.g. a slope of 1e-17 left by 0.333..y - (1/3)y - lies at
            # astronomically large values, where that allowance is large too)
            if abs(b) > tol:
                return "solution-added", {"assignment": G.show_assignment(a), "origin": origin, "before_residual": _show(b), "after_residual": _show(c), "allowed": float(tol)}
            true_points += 1
            continue
        if b == 0:
            true_points += 1
            if abs(c) > tol:
                return "solution-lost", {"assignment": G.show_assignment(a), "origin": origin, "after_residual": _show(c), "allowed": float(tol)}
        else:
            false_points += 1
            if abs(c) <= tol and (tol == 0 or abs(b) > 10**6 * tol):
                return "solution-added", {"assignment": G.show_assignment(a), "origin": origin, "before_residual": _show(b), "after_residual": _show(c)}
    ctx.count("true_solution_points", true_points)
    ctx.count("false_points", false_points)
    # proportional residuals (stronger than the property): counted as suspects only
    try:
        lam = None
        for a in assignments:
            b, rb = residual(before, a)
            c, rc = residual(after, a)
            if b is None or c is None or b == 0 or rb.inexact or rc.inexact:
                continue
            if lam is None:
                lam = c / b
            elif fresh == [] and c / b != lam:
                ctx.count("suspect_nonproportional_residuals")
                break
    except X.NonFinite:
        pass
    return "ok", {"solutions": true_points, "false_points": false_points}
