"""Hypothesis strategies: expression texts (G-ast, G-tmpl, G-str), assignments (G-assign).
Every random choice is drawn from Hypothesis. Nothing here needs mathy_core except the optional
harvest of `input` strings from rules/*.test.json (plain data)."""
import glob
import json
import os
from fractions import Fraction

from hypothesis import strategies as st

VARS = "xyz"
ALL_VARS = "abcdefghijklmnopqrstuvwxyz"

# ---------------------------------------------------------------- literals
small_ints = st.sampled_from([0, 1, 1, 2, 2, 3, 3, 4, 5, 6, 7, 8, 9, 10, 12])
big_ints = st.sampled_from([15, 24, 36, 100, 144, 1000, 4096, 65536, 999983, 10**6])
dyadic = st.sampled_from(["0.5", "0.25", "1.5", "2.5", "0.75", "4.5", "0.125"])
nondyadic = st.sampled_from(["0.1", "0.3", "2.7", "1.1", "0.7", "12.3"])
odd_literals = st.sampled_from([".5", "5.", "0.50", "007", "1.0", "2.0", "0.00001", "0.0000025", "0.000123"])
# literals a binary64 cannot hold (exact int coercion matters), and beyond the float range
huge_literals = st.one_of(
    st.integers(2**53, 2**53 + 64).map(str),
    st.integers(10**15, 10**25).map(str),
    st.sampled_from(["9007199254740993", "10000000000000001", "12345678901234567891", "1" + "0" * 400, "123456789012345678.5", "0.1234567890123456789"]),
)


def num_text(weights=(10, 1, 3, 1)):
    return st.one_of(
        *([small_ints.map(str)] * weights[0] + [big_ints.map(str)] * weights[1] + [dyadic] * weights[2] + [nondyadic] * weights[3])
    )


nonzero_coef = st.one_of(
    st.sampled_from([2, 3, 4, 5, 6, 7, 8, 9, 10, 12, 1]).map(str),
    st.sampled_from(["-1", "-2", "-3", "-4", "-7"]),
    st.sampled_from(["0.5", "1.5", "2.5", "-0.5", "0.25"]),
    st.sampled_from(["0.1", "0.3", "2.7"]),
)
any_coef = st.one_of(nonzero_coef, nonzero_coef, nonzero_coef, st.just("0"), st.just("1"))
exponent = st.sampled_from(["2", "3", "2", "3", "0", "1", "4", "-1", "-2", "0.5", "1.5", "2.5"])
var3 = st.sampled_from(list(VARS))
var_any = st.sampled_from(list(ALL_VARS))


@st.composite
def term_text(draw, vars_=var3):
    """Natural-order term [c][v][^e] (also -v, -v^e)."""
    form = draw(st.integers(0, 9))
    v = draw(vars_)
    if form <= 2:
        return draw(nonzero_coef) + v
    if form <= 4:
        return v + "^" + draw(exponent)
    if form <= 7:
        return draw(any_coef) + v + "^" + draw(exponent)
    if form == 8:
        return "-" + v
    return "-" + v + "^" + draw(exponent)


# ---------------------------------------------------------------- G-ast
# AST: ("leaf", text, atomic) | ("bin", op, l, r) | ("neg", e) | ("juxt", l, r) | ("sgn", e) | ("paren", e) | ("eq", l, r)


@st.composite
def leaf(draw):
    k = draw(st.integers(0, 19))
    if k <= 6:
        return ("leaf", draw(var3), True)
    if k <= 12:
        return ("leaf", draw(num_text()), True)
    if k == 13:
        return ("leaf", "-" + draw(st.sampled_from(["1", "2", "3", "0.5", "7"])), False)
    if k <= 17:
        return ("leaf", draw(term_text()), False)
    if k == 18:
        return ("leaf", draw(st.sampled_from(["3", "4", "5", "0", "1", "2"])) + "!", False)
    return ("leaf", draw(odd_literals), True)


BIN_OPS = ["+", "+", "+", "+", "-", "-", "-", "*", "*", "*", "*", "/", "/", "^", "^"]


@st.composite
def ast(draw, size):
    if size <= 1:
        return draw(leaf())
    k = draw(st.integers(0, 19))
    if k <= 13:
        op = draw(st.sampled_from(BIN_OPS))
        if op == "^":
            base = draw(ast(max(1, size - 2)))
            e = draw(st.integers(0, 9))
            if e <= 5:
                ex = ("leaf", draw(exponent), True)
            elif e == 6:
                ex = ("leaf", draw(var3), True)
            elif e == 7:
                ex = ("bin", "+", ("leaf", "1", True), ("leaf", draw(st.sampled_from(["1", "2"])), True))
            else:
                ex = draw(ast(max(1, size // 3)))
            return ("bin", "^", base, ex)
        ls = draw(st.integers(1, size - 1)) if size > 2 else 1
        return ("bin", op, draw(ast(ls)), draw(ast(max(1, size - 1 - ls))))
    if k <= 15:
        return ("neg", draw(ast(size - 1)))
    if k <= 17:
        ls = draw(st.integers(1, max(1, size - 1)))
        return ("juxt", draw(ast(min(ls, 3))), draw(ast(max(1, size - 1 - ls))))
    if k == 18:
        return ("sgn", draw(ast(size - 1)))
    return ("paren", draw(ast(size - 1)))


PREC = {"=": 0, "+": 1, "-": 1, "*": 2, "/": 2, "^": 4}


def render(a, explicit, sp=" "):
    """explicit=True: parentheses around every compound operand (meaning independent of
    precedence). explicit=False: minimal parentheses by conventional precedence/left-assoc."""
    k = a[0]
    if k == "leaf":
        return a[1]
    if k == "paren":
        return "(" + render(a[1], explicit, sp) + ")"
    if k == "sgn":
        return "sgn(" + render(a[1], explicit, sp) + ")"
    if k == "neg":
        inner = a[1]
        t = render(inner, explicit, sp)
        if inner[0] == "leaf" and inner[2]:
            return "-" + t
        if not explicit and inner[0] in ("juxt", "sgn", "paren"):
            return "-" + t
        return "-(" + t + ")"
    if k == "juxt":
        l, r = a[1], a[2]
        lt = render(l, explicit, sp)
        rt = render(r, explicit, sp)
        if not (l[0] == "leaf" and l[2]) and l[0] not in ("paren", "sgn"):
            lt = "(" + lt + ")"
        if r[0] not in ("paren", "sgn") and not (r[0] == "leaf" and r[2] and r[1][0].isalpha()):
            rt = "(" + rt + ")"
        return lt + rt
    if k == "eq":
        return render(a[1], explicit, sp) + sp + "=" + sp + render(a[2], explicit, sp)
    op, l, r = a[1], a[2], a[3]

    def operand(x, right):
        t = render(x, explicit, sp)
        if x[0] == "leaf":
            if x[2]:
                return t
            if op == "^":
                return "(" + t + ")"
            return t
        if x[0] in ("paren", "sgn"):
            return t
        if explicit:
            return "(" + t + ")"
        if x[0] == "bin":
            p, q = PREC[x[1]], PREC[op]
            if op == "^" or p < q or (p == q and right):
                return "(" + t + ")"
            return t
        if x[0] == "neg" and (op == "^" or right):
            return "(" + t + ")"
        if x[0] == "juxt" and op == "^":
            return "(" + t + ")"
        return t

    if op == "^":
        return operand(l, False) + "^" + operand(r, True)
    return operand(l, False) + sp + op + sp + operand(r, True)


@st.composite
def expr_text(draw, max_nodes=12, equation=None):
    """Text of a generated expression; equation: None = sometimes, True/False forces."""
    size = draw(st.integers(1, max_nodes))
    explicit = draw(st.booleans())
    sp = draw(st.sampled_from([" ", " ", " ", ""]))
    eq = draw(st.integers(0, 3)) == 0 if equation is None else equation
    if eq:
        ls = draw(st.integers(1, max(1, size - 1)))
        a = ("eq", draw(ast(ls)), draw(ast(max(1, size - ls))))
        if draw(st.integers(0, 5)) == 0:
            # the grammar allows chains: a = b = c
            a = ("eq", a, draw(ast(draw(st.integers(1, 3)))))
    else:
        a = draw(ast(size))
    return render(a, explicit, sp)


# ---------------------------------------------------------------- G-tmpl
# placeholders: {a}{b}{c}{d} coefficients, {v}{w}{u} variables (v,w may coincide, see `same`), {m}{n} exponents,
# {E}{F}{G} sub-expressions
TEMPLATES = {
    "CA": [
        "{a} + {b}", "{a} * {b}", "{a} - {b}", "{a} / {b}", "{a}^{m}", "-({a} + {b})", "-({a} * {b})", "-({a} - {b})",
        "{a}{v} * {b}", "{a} * ({b}{v} * {w})", "{a} + (({b} + {v}) + {w})", "{a} * ({b} * {v})", "{a} + ({b} + {E})",
        "{a}{v} * {b}{w}^{m}", "({a}{v}^{m} * {b}{w}^{n}) * {c}{v}", "{a}{v}^{m} * {b}{w} * {u}^{n}",
        "({v}^{m} * {a}{w}^{n}) * {b}{v}^{m}", "({v}^{m} * {a}{w}^{n}) * {b}{u}^{m}", "({u} * {a}{w}) * {b}{v}", "{a} * {b}{v}", "({a} * {b}) + {E}", "{a} = {b}", "{a} * {b} * {c}",
        "{a} + {b} + {c}", "{a} * ({b}{v} * {w}) + {E}", "{a}^{m} * {v}", "{a}^{b}", "{a}^-1", "{a}^-2", "{a}^-{b}", "({a})^{b}",
    ],
    "DF": [
        "{a}{v}^{m} + {b}{v}^{m}", "{a}{v} + {b}{v}", "{v} + {v}", "{a} + {b}", "{a}{v} + {v}", "{v}^{m} + {a}{v}^{m}",
        "({E} + {a}{v}) + {b}{v}", "{a}{v} + ({b}{v} + {E})", "({E} + {a}{v}) + ({b}{v} + {F})",
        "({E} + ({F} + {a}{v})) + {b}{v}", "{a}{v} + (({b}{v} + {E}) + {F})", "{a}{v}^{m} + {b}{v}^{n}",
        "{a}{v} + {b}{w}", "{a}{v}^{m} + ({b}{v}^{m} + {E})", "-{v} + {a}{v}", "-{v}^{m} + {v}^{m}", "{a} + {b}{v}",
        "{a}{v} + {b}", "({E} + {a}{v}^{m}) + {b}{v}^{m}", "{a}{v}^{m} + {v}",
        "{a}{v} - {b}{v}", "{a}{v} - ({b}{v} + {E})", "({E} + {a}{v}) - {b}{v}", "{a}{v} - ({b}{v} - {E})", "{a} - ({b} + {E})",
        # every chained arrangement again with a subtraction on top
        "{a}{v} - ({b}{v} + {E} + {F})", "({E} + ({F} + {a}{v})) - {b}{v}", "({E} + {a}{v}) - ({b}{v} + {F})", "{a}{v}^{m} - (({b}{v}^{m} + {E}) + {F})", "({E} + {a}{v}) - ({b}{v} + {F} + {G})",
    ],
    "DM": ["{a}({b} + {c})", "({b} + {c}) * {a}", "{v} * ({E} + {F})", "{a}{v} * ({b} + {w})", "{v}({a} + {w})", "({E} + {F})({G} + {v})", "{v}^{m} * ({a} + {w})", "({a} + {v}) * {w}^{m}"],
    "MI": ["{E} / {F}", "{E} / -{F}", "{E} / -{v}", "({a} + {b}{v}) / -{v}", "{a} / -({E})", "{v} / {a}{w}", "{E} / {a}"],
    "RS": [
        "{E} - {F}", "{E} - -{a}", "{E} - -{v}", "{E} - {a}{v}", "{E} - {a}{v}^{m}", "{E} + -{a}", "{E} + -{a}{v}", "{E} + -{a}{v}^{m}",
        "{E} - ({a} - {F})", "{E} - {a}^{v}", "{E} - {a} * ({F})", "{E} - {a} / {F}", "{E} - {a}^{m}", "{a}{v} - -{b}{w}^{m} + -{v}^{n}",
        "{E} - ({a} + {F})", "{E} - {a}!", "{E} - ({a}{v})^{m}",
    ],
    "VM": [
        "{v}^{m} * {v}^{n}", "{v} * {v}^{n}", "{v} * {v}", "{a}{v}^{m} * {v}^{n}", "{a}{v}^{m} * {b}{v}", "-{v} * {v}",
        "{a}{v} * ({b}{v} * {w})", "({a}{w}^{m} * {v}^{n}) * {b}{v}^{n}", "{v}^{m} * {v}", "{a}{v} * {b}{v}", "{v} * {w}",
        "{v}^{m} * ({v}^{n} * {E})", "-{v}^{m} * {v}^{n}", "({a}{w} * {v}) * {v}",
    ],
    "AG": ["({E} + {F}) + {G}", "{E} + ({F} + {G})", "({E} * {F}) * {G}", "{E} * ({F} * {G})", "{E} * {F} * {G}", "{E} + {F} + {G} + {a}", "{a}{v}^{m} * ({b}{w} * {c})"],
    "CS": ["{E} + {F}", "{E} * {F}", "({E} + {F}) + {G}", "{a}{v}", "{a}{v}^{m}", "{a}{v} * {b}{w}", "({E} * {F}) * {G}", "{a}{v}^{m} * {b}{w}", "{E} = {F}"],
    "BM": [
        "{a}{v} + {b} = {c}", "{a} = {b}{v}", "{a}{v} = {b}", "{a}{v} + {b} = {c} + {d}{v}", "{E} + {a}{v} = {F}",
        "{a}({v} + {b}) = {c}", "{a}{v} / {b} + {c} = {d}", "-({v} + {a}) = {b}", "({v} + {a})^{m} = {b}", "{c} - ({v} + {a}) = {b}",
        "{a} / ({v} + {b}) = {c}", "{v} + {a} + {b}{w} = {c}", "{a} = {b}{v} * {w}", "{a}{v} * {w} = {b}", "{v} = {a}{w} + {b}{u}",
        "{a}{v} = {b}{w}", "{a}{v}^{m} = {b}", "{a} + ({b} + {v}) = {c}", "{v} + {a} = {b} + ({c} + {w})", "{a}{v} * ({b} + {w}) = {c}",
        # longer sums, also nested where an addend must NOT be movable
        "{c} - ({v} + {a} + {w}) = {b}", "{a}({v} + {b} + {w}) = {c}", "-({v} + {a} + {w}) = {b}", "({v} + {a} + {w})^{m} = {b}", "{a} / ({v} + {b} + {w}) = {c}",
        "{c} - ({w} + ({v} + {a})) = {b}", "{v} + {a} + {w} = {b}", "{b} = {v} + {a} + {w}", "{d} = {a}{v} + {b} - {w}", "{w} + ({v} + {a}) = {b}", "{b} = {w} + ({v} + {a} + {u})",
        "{v} + {a} + {b}{w} + {c} = {d}{u} + {w} + {a}", "{v} - {a} + {w} = {b}",
        # chained equations (the grammar allows a = b = c)
        "{a}{v} = {b} = {w}", "{v} + {a} = {b} = {w}", "{w} = {a}{v} = {b}", "{v} = {b} = {w} + {a}", "{v} = {w} = {u}", "{a}{v} + {b} = {c}{w} = {d}", "{b} = ({v} + {a}) - {w}", "{a}{v} + {b} - ({w} + {c} + {u}) = {d}", "sgn({v} + {a} + {w}) = {b}",
    ],
}
CONTEXTS = [
    "{T}", "{T}", "{T}", "{T}", "{T}", "{T}", "{T}", "({T}) + {k}", "{k} + ({T})", "{k} * ({T})", "({T}) * {k}", "-({T})", "({T})^2", "{k} - ({T})", "({T}) - {k}",
    "{k} / ({T})", "({T}) / {k}", "({T}) = {k}", "{k} = ({T})", "{x}({T})", "({T}) + {x} = {k}", "{k}^({T})", "sgn({T})",
    "({T}) * ({T2})", "({T}) + ({T2})", "({T}) = ({T2})", "{T} + {k}", "{k} + {T}", "{T} = {k}", "{x} + ({T})",
]


def harvested_inputs():
    """`input` strings of the repository's rule examples (valid and invalid), if present."""
    out = []
    repo = os.environ.get("VERIF_REPO", "/repo")
    for path in sorted(glob.glob(os.path.join(repo, "mathy_core", "rules", "*.test.json"))):
        try:
            with open(path) as f:
                data = json.load(f)
        except (OSError, ValueError):
            continue

        def walk(x):
            if isinstance(x, dict):
                if isinstance(x.get("input"), str):
                    out.append(x["input"])
                for v in x.values():
                    walk(v)
            elif isinstance(x, list):
                for v in x:
                    walk(v)

        walk(data)
    return sorted(set(out))


_FALLBACK_INPUTS = ["4x^3 + g + 5y + 7p^4 + x^3 + 12p^4", "3x + 7 = 2 + 4x", "(u^3 * 36c^6) * 7u^3", "792z^4 * 490f * q^3", "11n + -(-4 + 3) * s^2"]


RECIPROCAL = {"1": "1", "-1": "-1", "2": "0.5", "0.5": "2", "4": "0.25", "0.25": "4", "10": "0.1", "0.1": "10", "-2": "-0.5", "-0.5": "-2", "8": "0.125"}


@st.composite
def fill_template(draw, tmpl, depth=1):
    same = draw(st.integers(0, 3)) != 0  # v and w are usually different variables
    v = draw(var3)
    w = draw(var3.filter(lambda c: c != v)) if same else draw(var3)
    if draw(st.integers(0, 11)) == 0:
        w = v.upper()  # a DIFFERENT variable that only differs in case
    u = draw(var3)
    vals = {"v": v, "w": w, "u": u}
    for key in "abcd":
        if "{" + key + "}" in tmpl:
            vals[key] = draw(any_coef)
    # coincidences a generic draw almost never produces: equal, opposite and reciprocal coefficients
    if "a" in vals and "b" in vals:
        mode = draw(st.integers(0, 11))
        if mode == 0:
            vals["b"] = vals["a"]
        elif mode == 1:
            vals["b"] = vals["a"][1:] if vals["a"].startswith("-") else "-" + vals["a"]
        elif mode == 2:
            vals["b"] = RECIPROCAL.get(vals["a"], vals["b"])
        elif mode == 3:
            vals["a"], vals["b"] = draw(st.sampled_from([("1", "1"), ("-1", "-1"), ("0.5", "2"), ("2", "0.5"), ("0", "0"), ("1", "0"), ("0", "1"), ("4", "0.25")]))
    # same exponent is the interesting case for like terms
    m = draw(exponent)
    n = m if draw(st.integers(0, 2)) == 0 else draw(exponent)
    vals["m"] = m
    vals["n"] = n
    for key in "EFG":
        if "{" + key + "}" in tmpl:
            vals[key] = draw(sub_expr(depth))
    return tmpl.format(**vals)


@st.composite
def sub_expr(draw, depth=1):
    k = draw(st.integers(0, 9))
    if k <= 2:
        return draw(var3)
    if k <= 4:
        return draw(num_text())
    if k <= 6:
        return draw(term_text())
    if depth <= 0:
        return draw(var3)
    a = draw(ast(draw(st.integers(2, 4))))
    return "(" + render(a, True) + ")"


@st.composite
def template_text(draw, groups=None):
    groups = groups or list(TEMPLATES)
    g = draw(st.sampled_from(groups))
    t = draw(fill_template(draw(st.sampled_from(TEMPLATES[g]))))
    c = draw(st.sampled_from(CONTEXTS))
    if c == "{T}" or "=" in t:
        return t
    t2 = ""
    if "{T2}" in c:
        g2 = draw(st.sampled_from(groups))
        t2 = draw(fill_template(draw(st.sampled_from(TEMPLATES[g2])), 0))
    if "=" in t2:
        return t
    return c.format(T=t, T2=t2, k=draw(any_coef), x=draw(var3))


COINCIDENCES = [
    ("3", "5"), ("4", "4"), ("3", "-3"), ("0.5", "2"), ("1", "1"), ("-1", "-1"), ("0", "5"), ("5", "0"), ("1", "7"), ("7", "1"), ("-2", "0.5"), ("0.1", "0.3"), ("6", "9"), ("0", "0"), ("0.5", "0.5"),
    # very small and very unequal magnitudes (folds far below 1, and near whole numbers)
    ("0.00001", "0.00002"), ("100000", "0.00001"), ("4.35", "100"), ("0.0000000004", "0.0000000001"),
]


def sweep_texts(groups=None):
    """Deterministic 'every template x every coefficient coincidence' list (root position and one
    nested position): the corners a random draw reaches far too rarely (product 1, sum 0, zero
    or unit coefficients, equal/unequal exponents and variables)."""
    out = []
    for g in groups or list(TEMPLATES):
        for tmpl in TEMPLATES[g]:
            for a, b in COINCIDENCES:
                for same_var, (m, n) in ((False, ("2", "2")), (True, ("2", "3")), (False, ("0", "1")), ("case", ("2", "2"))):
                    if same_var == "case" and (a, b) not in COINCIDENCES[:3]:
                        continue  # v and w differ only in case (x, X): a few coefficient pairs are enough
                    vals = {"a": a, "b": b, "c": "3", "d": "5", "v": "x", "w": "X" if same_var == "case" else ("x" if same_var else "y"), "u": "z", "m": m, "n": n, "E": "y", "F": "(z + 1)", "G": "z"}
                    t = tmpl.format(**vals)
                    out.append(t)
                    if "=" not in t and (m, n) == ("2", "2"):
                        out.append(f"({t}) + w")
                        out.append(f"2 * ({t})")
                        out.append(f"x^({t})")
                        out.append(f"-({t})")
    seen = set()
    uniq = []
    for t in out:
        if t not in seen:
            seen.add(t)
            uniq.append(t)
    return uniq


def _rp_text(a):
    """Fully parenthesised text of a refparse AST (meaning independent of precedence)."""
    k = a[0]
    if k == "c":
        v = a[1]
        t = repr(v) if isinstance(v, int) else format(v, "f").rstrip("0").rstrip(".") if abs(v) < 1e15 and v == v else repr(v)
        return t
    if k == "v":
        return a[1]
    if k == "neg":
        return "-(" + _rp_text(a[1]) + ")"
    if k == "sgn":
        return "sgn(" + _rp_text(a[1]) + ")"
    if k == "!":
        return _rp_text(a[1]) + "!"
    if k == "=":
        return _rp_text(a[1]) + " = " + _rp_text(a[2])

    def operand(x):
        t = _rp_text(x)
        if x[0] == "v" or (x[0] == "c" and not t.startswith("-")):
            return t
        return "(" + t + ")"

    if k == "^":
        return operand(a[1]) + "^" + operand(a[2])
    return operand(a[1]) + " " + k + " " + operand(a[2])


def _one_edit(a):
    """Every AST one edit away: a binary operator replaced by another, a leaf replaced by a leaf of
    the other kind, a leaf replaced by a compound, two operands exchanged."""
    k = a[0]
    if k in ("c", "v"):
        yield ("v", "q") if k == "c" else ("c", 7)
        yield ("+", ("v", "p"), ("c", 1))
        yield ("*", ("c", 2), ("v", "p"))
        if k == "c":
            yield ("c", 0) if a[1] != 0 else ("c", 1)
        return
    if k in ("+", "-", "*", "/", "^"):
        for op in ("+", "-", "*", "/", "^"):
            if op != k:
                yield (op, a[1], a[2])
        yield (k, a[2], a[1])
        yield ("neg", a)
    for i in range(1, len(a)):
        if isinstance(a[i], tuple):
            for sub in _one_edit(a[i]):
                yield a[:i] + (sub,) + a[i + 1:]


def neighbour_texts(groups=None):
    """Deterministic 'one edit away from every rule template' list: the near-miss shapes on which a
    rule must either refuse or still be right (a pattern test that looks at the wrong child, accepts
    the wrong operator or the wrong leaf kind shows here and almost nowhere else)."""
    from . import refparse

    out = []
    seen = set()
    fills = (
        {"a": "3", "b": "5", "c": "4", "d": "6", "v": "x", "w": "y", "u": "z", "m": "2", "n": "3", "E": "y", "F": "(z + 1)", "G": "z"},
        {"a": "4", "b": "4", "c": "4", "d": "2", "v": "x", "w": "x", "u": "x", "m": "2", "n": "2", "E": "x", "F": "(x + 4)", "G": "x"},
    )
    for g in groups or list(TEMPLATES):
        for tmpl in TEMPLATES[g]:
            for vals in fills:
                t = tmpl.format(**vals)
                try:
                    a = refparse.parse(t)
                except refparse.Reject:
                    continue
                for b in _one_edit(a):
                    try:
                        txt = _rp_text(b)
                    except (TypeError, ValueError):
                        continue
                    if txt not in seen:
                        seen.add(txt)
                        out.append(txt)
    return out


def small_expressions(max_ops, leaves=("x", "y", "2", "-1", "0", "0.5"), ops=("+", "-", "*", "/", "^")):
    """Bounded-exhaustive: every expression with <= max_ops binary operators over the given leaves,
    rendered with explicit parentheses (so the text means exactly the enumerated tree)."""
    import functools

    @functools.lru_cache(maxsize=None)
    def exprs(k):
        if k == 0:
            return tuple(leaves)
        out = []
        for i in range(k):
            for l in exprs(i):
                for r in exprs(k - 1 - i):
                    lt = l if i == 0 and not l.startswith("-") else f"({l})"
                    rt = r if k - 1 - i == 0 and not r.startswith("-") else f"({r})"
                    for op in ops:
                        out.append(f"{lt} {op} {rt}" if op != "^" else f"{lt}^{rt}")
        return tuple(out)

    res = []
    for k in range(1, max_ops + 1):
        res.extend(exprs(k))
    return res


def tree_text(max_nodes=12):
    """Text for G-tree: grammar ASTs, rule-shaped templates in context, repository examples."""
    inputs = harvested_inputs() or _FALLBACK_INPUTS
    return st.one_of(
        expr_text(max_nodes),
        expr_text(max_nodes),
        template_text(),
        template_text(),
        template_text(),
        st.sampled_from(inputs),
    )


pre_steps = st.lists(st.tuples(st.integers(0, 10), st.integers(0, 30)), max_size=4)


def tree_case(max_nodes=12, max_pre=4):
    """JSON-able case for rule checks: text + pre-rewrites [(rule index, node choice)]."""
    return st.builds(
        lambda t, p: {"text": t, "pre": [list(x) for x in p]},
        tree_text(max_nodes),
        st.one_of(st.just([]), st.lists(st.tuples(st.integers(0, 10), st.integers(0, 30)), max_size=max_pre)),
    )


# ---------------------------------------------------------------- G-str
ALPHABET = list("0123456789") + ["."] + list("xyzabs") + list("eijp") + list("+-*/^!=()[]") + [" ", " ", "\t", "sgn", "–", "g", "n", "S", "G", "N", "X", "Sgn", "SGN", "sgn(", "Sgn("]
token_soup = st.lists(st.sampled_from(ALPHABET), max_size=24).map("".join)


@st.composite
def mutated(draw, base):
    s = draw(base)
    n = draw(st.integers(1, 3))
    for _ in range(n):
        if not s:
            break
        i = draw(st.integers(0, len(s) - 1))
        op = draw(st.integers(0, 4))
        ch = draw(st.sampled_from(ALPHABET))
        if op == 0:
            s = s[:i] + s[i + 1 :]
        elif op == 1:
            s = s[:i] + ch + s[i:]
        elif op == 2:
            s = s[:i] + ch + s[i + 1 :]
        elif op == 3 and i + 1 < len(s):
            s = s[:i] + s[i + 1] + s[i] + s[i + 2 :]
        else:
            s = s[:i]
    return s


def decorate(base):
    """Aliases and whitespace: [ ] for ( ), en-dash for minus, tabs/newlines."""

    @st.composite
    def deco(draw):
        s = draw(base)
        mode = draw(st.integers(0, 6))
        if mode == 0:
            s = s.replace("(", "[").replace(")", "]")
        elif mode == 1:
            s = s.replace("-", "–")
        elif mode == 2:
            s = s.replace(" ", draw(st.sampled_from(["\t", "  ", "\n", "\r\n", ""])))
        elif mode == 3:
            s = " " + s + "  "
        elif mode == 4:
            # the alphabet has both cases: upper-case one letter run (function names are case-sensitive)
            i = draw(st.integers(0, max(0, len(s) - 1)))
            j = i
            while j < len(s) and s[j].isalpha():
                j += 1
            k = draw(st.integers(0, 2))
            s = s[:i] + (s[i:j].upper() if k == 0 else s[i:j].capitalize() if k == 1 else s[i:j].swapcase()) + s[j:]
        return s

    return deco()


@st.composite
def with_huge_literal(draw, base):
    """Replace one small literal of a generated string by a literal beyond 2^53."""
    import re

    s = draw(base)
    spots = [m for m in re.finditer(r"(?<![\d.])\d+(?![\d.])", s)]
    lit = draw(huge_literals)
    if not spots:
        return lit + " + " + s if s else lit
    m = spots[draw(st.integers(0, len(spots) - 1))]
    return s[: m.start()] + lit + s[m.end() :]


@st.composite
def power_chain(draw):
    """Runs of factors followed by two or three exponents in a row (x^2^3, 2xy^2^2, -x^y^2, 3^2^2): the grammar gives
    a factor run one exponent (bound to its last factor); a second '^' applies to the whole unary expression."""
    base = draw(st.sampled_from(["x", "xy", "2x", "-x", "2xy", "(x + 1)", "sgn(x)", "3", "-2", "x(y)", "0.5z", "-xy", "2(x)"]))
    n = draw(st.integers(2, 3))
    exps = [draw(st.sampled_from(["2", "3", "y", "-1", "0.5", "(1 + 1)", "0", "-y", "2x"])) for _ in range(n)]
    s = base + "".join("^" + e for e in exps)
    return s + draw(st.sampled_from(["", "", " + 1", " * y", " = 4", "z"]))


def grammar_strings(max_nodes=10):
    base = st.one_of(expr_text(max_nodes), expr_text(max_nodes), template_text())
    return st.one_of(base, base, decorate(base), mutated(base), token_soup, with_huge_literal(base), power_chain())


# ---------------------------------------------------------------- G-assign
PRIMES_P = [104729, 15485863, 1299709, 32452843, 49979687, 86028121]
PRIMES_Q = [1299709, 32452843, 104729, 15485863, 67867967, 49979687]
POOL = [Fraction(2), Fraction(3), Fraction(-2), Fraction(5), Fraction(1, 2), Fraction(-3, 2), Fraction(7), Fraction(-1), Fraction(1), Fraction(0), Fraction(4), Fraction(-5), Fraction(3, 2), Fraction(-7, 4)]


def assignments(varnames, count=8):
    """Deterministic list of exact assignments over varnames: two generic ones (ratios of large
    primes: coincidental equalities are practically impossible), then small values of both signs
    including 0."""
    names = sorted(varnames)
    out = []
    for i in range(count):
        a = {}
        for j, v in enumerate(names):
            if i == 0:
                a[v] = Fraction(PRIMES_P[j % 6] + 7 * (j // 6), PRIMES_Q[j % 6])
            elif i == 1:
                a[v] = Fraction(PRIMES_P[(j + 2) % 6], PRIMES_Q[(j + 3) % 6] + 2 * (j // 6)) * (-1 if j % 2 == 0 else 1)
            else:
                a[v] = POOL[(i * 5 + j * 3 + i * j) % len(POOL)]
        out.append(a)
    return out


def show_assignment(a):
    return {k: str(v) for k, v in sorted(a.items())}
