"""C08 — each rule performs its documented transformation on its documented forms."""
from fractions import Fraction

from hypothesis import strategies as st

from . import audit as A
from . import engine as E
from . import exact as X
from . import schemas as S
from .schemas import C, V, term, norm, operands, remove_all, is_const, close
from .runner import hyp_run

PROP = "C08"
LEVEL = "exploration"
RULE = (
    "instances of the documented schemas (rules/*.md, class docstrings): a+b, a*b, chains, L=R flip; (a+b)+c <-> a+(b+c) "
    "for + and *; c1 op c2 for + - * / ^, -(c1+c2), 2x*8 and the five 'alternate tree forms'; ax^n+bx^n incl. chained "
    "left/right and pure constants with constants=True; a(b+c), (b+c)a; a/b, a/-b; a-b, a- -b, a+ -c, a+ -cx, a+ -cx^n and "
    "back; x^a*x^b, x*x^b, c1x^a*c2x^b; t+rest=R, R=t+rest, cx=R - with coefficients from ints/negatives/decimals, "
    "variables from 6 letters, exponents from ints>=0, negatives, decimals, sub-expressions drawn as atoms/sums/terms, "
    "each embedded in one of 19 contexts with the target located by its path; oracle: can_apply_to is True and the "
    "result has the documented shape after flattening/sorting + and * operands (any common numeric factor for "
    "factor-out), built independently from the parameters, and is not the unchanged input; the documented refusals "
    "(unlike variables, different exponents, a-b / a/b for commutative, pure constants without constants=True, x*y, "
    "balanced move outside an equation or with addends left on the side) must be refused; every instance is non-trivial; distinct by text"
)
ASSUMPTIONS = [
    "coefficient 0 is excluded from the factor-out schema (factor(0) is empty by design; the documentation never shows it)",
    "restate-subtraction accepts either encoding of 'plus the negation': a negation node, a negated literal, or a negated leading coefficient",
]

RULES = None


def rule(name):
    global RULES
    if RULES is None:
        RULES = dict(E.rule_instances())
    return RULES[name]


def tup(x):
    if isinstance(x, list):
        return tuple(tup(i) for i in x)
    return x


# ------------------------------------------------------------------ matchers
def m_equal(expected):
    def f(res, lhs):
        return None if norm(res) == norm(expected) else f"expected shape {S.text(expected)}"

    return f


def m_same_operands_changed(res, lhs):
    if norm(res) != norm(lhs):
        return "operands differ from the input's"
    if res == lhs:
        return "the rule returned the input unchanged"
    return None


def leaves(a, out=None):
    out = [] if out is None else out
    if a[0] in ("c", "v"):
        out.append(norm(a))
    else:
        for x in a[1:]:
            leaves(x, out)
    return out


def m_regrouped(res, lhs):
    r = m_same_operands_changed(res, lhs)
    if r:
        return r
    if leaves(res) != leaves(lhs):
        return "regrouping changed the order of the operands"
    return None


def cval(c):
    return X.const_value(c)


def m_constant(value):
    def f(res, lhs):
        if res[0] != "c":
            return "result is not a single constant"
        try:
            got = cval(res[1])
        except X.NonFinite:
            return None
        return None if close(got, value) else f"constant {res[1]!r} is not {float(value)!r}"

    return f


def m_folded_product(c1, c2):
    """Product whose factors are the input's with c1, c2 replaced by c1*c2."""

    def f(res, lhs):
        want = remove_all(operands(norm(lhs), "*"), [norm(C(c1)), norm(C(c2))])
        assert want is not None
        got = operands(norm(res), "*")
        consts = [g for g in got if is_const(g)]
        rest = remove_all(got, want)
        if rest is None or len(rest) != 1 or not is_const(rest[0]):
            return "factors are not the input's with the two constants merged"
        return None if close(rest[0][1], cval(c1) * cval(c2)) else "merged constant has the wrong value"

    return f


def m_factored(a, b, base, extra=()):
    """(p + q) * k * base with p*k == a, q*k == b, plus the kept addends `extra`."""

    def f(res, lhs):
        adds = operands(norm(res), "+")
        keep = []
        for e in extra:
            keep += operands(norm(e), "+")
        rest = remove_all(adds, keep) if keep else adds
        if rest is None or len(rest) != 1:
            return "kept addends are missing or the factored part is not a single product"
        fac = operands(rest[0], "*")
        sums = [x for x in fac if x[0] == "+"]
        if len(sums) != 1 or len(sums[0][1]) != 2 or not all(is_const(x) for x in sums[0][1]):
            return "no sum of two constants in the product"
        others = remove_all(fac, sums)
        if base is not None:
            others = remove_all(others, operands(norm(base), "*"))
            if others is None:
                return "common variable part is missing"
        ks = [x for x in others if is_const(x)]
        if len(ks) != len(others) or len(ks) > 1:
            return "unexpected extra factors"
        k = ks[0][1] if ks else Fraction(1)
        p, q = sums[0][1][0][1], sums[0][1][1][1]
        fa, fb = cval(a), cval(b)
        if (close(p * k, fa) and close(q * k, fb)) or (close(q * k, fa) and close(p * k, fb)):
            return None
        return f"({p} + {q}) * {k} does not reproduce the coefficients {a}, {b}"

    return f


def strip_sign(a):
    """(sign, core) with negation wrappers and the sign of a leading constant removed."""
    if a[0] == "neg":
        s, c = strip_sign(a[1])
        return -s, c
    if a[0] == "c":
        v = cval(a[1])
        return (-1, ("c", -v)) if v < 0 else (1, ("c", v))
    if a[0] in ("*", "/"):
        s, c = strip_sign(a[1])
        return s, (a[0], c, norm(a[2]))
    return 1, norm(a)


def m_restated(new_op, A_, B):
    def f(res, lhs):
        if res[0] != new_op:
            return f"result is not a '{new_op}' node"
        if norm(res[1]) != norm(A_):
            return "left operand changed"
        sb, cb = strip_sign(B)
        sr, cr = strip_sign(res[2])
        if cb != cr or sb != -sr:
            return "right operand is not the negation of the original one"
        return None

    return f


# ------------------------------------------------------------------ schema instances
# each builder returns dict(rule, lhs, target, contexts, matcher|None (None = must be refused))
def inst(rule_name, lhs, matcher, target="", contexts=None, refuse=False):
    return {"rule": rule_name, "lhs": lhs, "target": target, "contexts": contexts or S.CONTEXTS_ANY, "matcher": matcher, "refuse": refuse}


def build_instance(name, p):
    a, b, c = p.get("A"), p.get("B"), p.get("G")
    k1, k2 = p.get("k1"), p.get("k2")
    v, w, m, n = p.get("v"), p.get("w"), p.get("m"), p.get("n")
    rl = p.get("rule_alt", 0)
    if name == "CS-add":
        return inst(["CS1", "CS0"][rl % 2], ("+", a, b), m_same_operands_changed)
    if name == "CS-mul":
        return inst("CS1", ("*", a, b), m_same_operands_changed)
    if name == "CS-compound":
        # a and b stand for ANY sub-expression: differences, quotients, negations, powers, products under +, sums under *
        op = "+" if rl % 2 else "*"
        return inst(["CS1", "CS0"][p["i"] % 2] if op == "+" else "CS1", (op, p["CA"], p["CB"]), m_same_operands_changed)
    if name == "CS0-mul":
        # preferred=False only keeps products that already are in preferred order (4x, 8y^4) from commuting;
        # a product whose left factor is not a constant and whose right factor is not a variable power still commutes
        return inst("CS0", ("*", a, b), m_same_operands_changed)
    if name == "CS0-term-refuse":
        # with preferred=False a term already in preferred order (4x, 8y^4) does not commute ...
        t = term(abs(k1) if k1 is not None else 4, v, None if p["i"] % 2 else (m if isinstance(m, int) and m >= 2 else 4))
        return inst("CS0", t, None, contexts=["HOLE", ("+", "HOLE", C(7)), ("+", V("w"), "HOLE"), ("neg", "HOLE"), ("=", "HOLE", C(1))], refuse=True)
    if name == "CS0-term-in-product":
        # ... unless it sits inside a larger product whose other factor is a product too: 12x * 10y -> (x * 12) * 10y
        t1 = term(abs(k1) if k1 is not None else 12, v, None if p["i"] % 2 else 4)
        t2 = term(abs(k2) if k2 is not None else 10, w)
        return inst("CS0", ("*", t1, t2), lambda res, lhs: None if (norm(res) == norm(lhs[1]) and res != lhs[1]) else "the inner term was not commuted", target="L")
    if name == "CS-chain":
        op = "+" if rl % 2 else "*"
        return inst("CS1", (op, (op, a, b), c), m_same_operands_changed)
    if name == "CS-flip":
        return inst(["CS1", "CS0"][rl % 2], ("=", a, b), lambda res, lhs: None if res == ("=", lhs[2], lhs[1]) else "sides are not swapped", contexts=S.CONTEXTS_ROOT)
    if name == "CS-refuse":
        return inst(["CS1", "CS0"][rl % 2], (["-", "/", "^"][p["i"] % 3], a, b), None, refuse=True)
    if name == "AG-left":
        op = "+" if rl % 2 else "*"
        return inst("AG", (op, (op, a, b), c), m_regrouped, target="L", contexts=S.CONTEXTS_ANY)
    if name == "AG-right":
        op = "+" if rl % 2 else "*"
        return inst("AG", (op, a, (op, b, c)), m_regrouped, target="R")
    if name == "AG-both":
        op = "+" if rl % 2 else "*"
        d = p.get("D") or V("w")
        lhs = (op, (op, a, b), (op, c, d))
        return inst("AG", lhs, m_regrouped, target="L" if p["i"] % 2 == 0 else "R")
    if name == "AG-refuse":
        ops = [("+", "*"), ("*", "+"), ("-", "+"), ("/", "*"), ("+", "-")][p["i"] % 5]
        return inst("AG", (ops[0], (ops[1], a, b), c), None, target="L", refuse=True)
    if name == "CA-simple":
        op = p["op"]
        st_ = X.State({})
        x, y = cval(k1), cval(k2)
        if op == "+":
            val = x + y
        elif op == "-":
            val = x - y
        elif op == "*":
            val = x * y
        elif op == "/":
            val = x / y
        else:
            val = X._pow(x, y, st_)
        return inst("CA", (op, C(k1), C(k2)), m_constant(val))
    if name == "CA-neg":
        return inst("CA", ("neg", ("+", C(k1), C(k2))), m_constant(-(cval(k1) + cval(k2))))
    if name == "CA-sibling":
        return inst("CA", ("*", ("*", C(k1), V(v)), C(k2)), m_folded_product(k1, k2))
    if name == "CA-alt":
        form = p["i"] % 6
        ex = ("^", V(w), C(3))
        if form == 0:
            lhs = ("*", C(k1), ("*", ("*", C(k2), V(v)), V(w)))
        elif form == 1:
            lhs = ("*", C(k1), ("*", C(k2), ex))
        elif form == 2:
            lhs = ("*", ("*", C(k1), V(v)), ("*", C(k2), ex))
        elif form == 3:
            lhs = ("*", ("*", C(k1), ("^", V(v), C(4))), ("*", ("*", C(k2), V(w)), ("^", V("q"), C(3))))
        elif form == 4:
            lhs = ("*", ("*", ("^", V(v), C(3)), ("*", C(k1), ("^", V(w), C(6)))), ("*", C(k2), ("^", V(v), C(3))))
        else:
            lhs = ("+", C(k1), ("+", C(k2), a))
            return inst("CA", lhs, lambda res, lhs_: None if _sum_folded(res, lhs_, k1, k2) else "constants of the sum chain were not merged")
        return inst("CA", lhs, m_folded_product(k1, k2))
    if name == "CA-refuse":
        forms = [("+", C(k1), term(k2, v)), ("-", term(k1, v), C(k2)), ("*", C(k1), ("^", V(v), C(2))), ("-", V(v), C(k2)), ("+", V(v), V(w))]
        return inst("CA", forms[p["i"] % len(forms)], None, refuse=True)
    if name == "DF-simple":
        base = V(v) if m is None else ("^", V(v), C(m))
        return inst(["DF0", "DF1"][rl % 2], ("+", term(k1, v, m), term(k2, v, m)), m_factored(1 if k1 is None else k1, 1 if k2 is None else k2, base))
    if name == "DF-chained-left":
        base = V(v) if m is None else ("^", V(v), C(m))
        return inst("DF0", ("+", ("+", a, term(k1, v, m)), term(k2, v, m)), m_factored(k1, k2, base, extra=[a]))
    if name == "DF-chained-right":
        base = V(v) if m is None else ("^", V(v), C(m))
        return inst("DF0", ("+", term(k1, v, m), ("+", term(k2, v, m), a)), m_factored(k1, k2, base, extra=[a]))
    if name == "DF-constants":
        k = p["k"]
        return inst("DF1", ("+", C(k * p["p"]), C(k * p["q"])), m_factored(k * p["p"], k * p["q"], None))
    if name == "DF-constants-refuse":
        k = p["k"]
        return inst("DF0", ("+", C(k * p["p"]), C(k * p["q"])), None, refuse=True)
    if name == "DF-refuse":
        forms = [("+", term(k1, v), term(k2, w)), ("+", term(k1, v, 2), term(k2, v, 3)), ("+", term(k1, v, 2), term(k2, v)), ("+", term(k1, v, 2), term(k2, w, 2))]
        return inst(["DF0", "DF1"][rl % 2], forms[p["i"] % 4], None, refuse=True)
    if name == "DM-right":
        return inst("DM", ("*", a, ("+", b, c)), m_equal(("+", ("*", a, b), ("*", a, c))))
    if name == "DM-left":
        return inst("DM", ("*", ("+", b, c), a), m_equal(("+", ("*", a, b), ("*", a, c))))
    if name == "DM-refuse":
        return inst("DM", ("*", a, b), None, refuse=True)
    if name == "MI":
        return inst("MI", ("/", a, b), m_equal(("*", a, ("/", C(1), b))))
    if name == "MI-neg":
        return inst("MI", ("/", a, ("neg", b)), m_equal(("*", a, ("/", C(-1), b))))
    if name == "MI-refuse":
        return inst("MI", (["*", "+", "-", "^"][p["i"] % 4], a, b), None, refuse=True)
    if name.startswith("RS-") and name != "RS-refuse":
        kk = abs(k1) if k1 is not None else 2
        forms = {
            "RS-sub": ("-", a, b),
            "RS-sub-const": ("-", a, C(kk)),
            "RS-sub-term": ("-", a, term(kk, v, m)),
            "RS-sub-quotient": ("-", a, ("/", C(kk), b)),
            "RS-sub-negconst": ("-", a, C(-kk)),
            "RS-sub-negvar": ("-", a, ("neg", V(v))),
            "RS-sub-negterm": ("-", a, term(-kk, v, m)),
            "RS-add-negconst": ("+", a, C(-kk)),
            "RS-add-negterm": ("+", a, term(-kk, v, m)),
        }
        lhs = forms[name]
        new_op = "+" if lhs[0] == "-" else "-"
        return inst("RS", lhs, m_restated(new_op, lhs[1], lhs[2]), contexts=S.CONTEXTS_RS)
    if name == "RS-refuse":
        forms = [("+", a, C(abs(k1))), ("+", a, term(abs(k1), v)), ("*", a, b), ("+", a, V(v))]
        return inst("RS", forms[p["i"] % 4], None, contexts=S.CONTEXTS_RS, refuse=True)
    if name == "VM":
        parts = []
        if k1 is not None and k2 is not None:
            parts.append(("*", C(k1), C(k2)))
        elif k1 is not None or k2 is not None:
            parts.append(C(k1 if k1 is not None else k2))
        pw = ("^", V(v), ("+", C(1 if m is None else m), C(1 if n is None else n)))
        expected = ("*", parts[0], pw) if parts else pw
        return inst("VM", ("*", term(k1, v, m), term(k2, v, n)), m_equal(expected))
    if name == "VM-refuse":
        forms = [("*", V(v), V(w)), ("*", V(v), ("^", V(w), C(2))), ("*", term(2, v), term(1, w, 3)), ("*", term(k1, v, 2), term(k2, w, 2))]
        return inst("VM", forms[p["i"] % 4], None, refuse=True)
    if name == "BM-add":
        t = C(k1) if p["i"] % 3 == 0 else term(k1, v, m if p["i"] % 3 == 2 else None)
        side = p["i"] % 4
        if side == 0:
            return inst("BM", ("=", ("+", t, a), b), m_equal(("=", a, ("-", b, t))), target="LL", contexts=S.CONTEXTS_ROOT)
        if side == 1:
            return inst("BM", ("=", ("+", a, t), b), m_equal(("=", a, ("-", b, t))), target="LR", contexts=S.CONTEXTS_ROOT)
        if side == 2:
            return inst("BM", ("=", b, ("+", t, a)), m_equal(("=", ("-", b, t), a)), target="RL", contexts=S.CONTEXTS_ROOT)
        return inst("BM", ("=", b, ("+", a, t)), m_equal(("=", ("-", b, t), a)), target="RR", contexts=S.CONTEXTS_ROOT)
    if name == "BM-add3":
        t = C(k1) if p["i"] % 3 == 0 else term(k1, v, m if p["i"] % 3 == 2 else None)
        form = p["i"] % 6
        if form == 0:
            return inst("BM", ("=", ("+", ("+", a, t), c), b), m_equal(("=", ("+", a, c), ("-", b, t))), target="LLR", contexts=S.CONTEXTS_ROOT)
        if form == 1:
            return inst("BM", ("=", ("+", ("+", t, a), c), b), m_equal(("=", ("+", a, c), ("-", b, t))), target="LLL", contexts=S.CONTEXTS_ROOT)
        if form == 2:
            return inst("BM", ("=", ("+", a, ("+", t, c)), b), m_equal(("=", ("+", a, c), ("-", b, t))), target="LRL", contexts=S.CONTEXTS_ROOT)
        if form == 3:
            return inst("BM", ("=", b, ("+", ("+", a, t), c)), m_equal(("=", ("-", b, t), ("+", a, c))), target="RLR", contexts=S.CONTEXTS_ROOT)
        if form == 4:
            return inst("BM", ("=", b, ("+", a, ("+", c, t))), m_equal(("=", ("-", b, t), ("+", a, c))), target="RRR", contexts=S.CONTEXTS_ROOT)
        return inst("BM", ("=", ("+", ("+", ("+", a, c), t), V(w)), b), m_equal(("=", ("+", ("+", a, c), V(w)), ("-", b, t))), target="LLR", contexts=S.CONTEXTS_ROOT)
    if name == "CA-zero":
        forms = [("/", C(0), C(k1)), ("^", C(abs(k1)), C(0)), ("^", C(0), C(abs(k2) if isinstance(k2, int) else 3)), ("*", C(0), C(k1)), ("+", C(0), C(k1)), ("-", C(k1), C(0)), ("*", C(k1), C(0.0)), ("-", C(0), C(k1))]
        lhs = forms[p["i"] % len(forms)]
        x, y = cval(lhs[1][1]), cval(lhs[2][1])
        val = {"/": lambda: x / y, "^": lambda: X._pow(x, y, X.State({})), "*": lambda: x * y, "+": lambda: x + y, "-": lambda: x - y}[lhs[0]]()
        return inst("CA", lhs, m_constant(val))
    if name == "BM-mul":
        t = term(k1, v, m)
        if p["i"] % 2 == 0:
            return inst("BM", ("=", t, p["R"]), m_equal(("=", ("/", t, C(k1)), ("/", p["R"], C(k1)))), target="LL", contexts=S.CONTEXTS_ROOT)
        return inst("BM", ("=", p["R"], t), m_equal(("=", ("/", p["R"], C(k1)), ("/", t, C(k1)))), target="RL", contexts=S.CONTEXTS_ROOT)
    if name == "BM-refuse":
        form = p["i"] % 3
        if form == 0:
            return inst("BM", ("+", C(k1), a), None, target="L", contexts=["HOLE", ("*", C(2), "HOLE"), ("neg", "HOLE")], refuse=True)
        if form == 1:
            return inst("BM", ("=", ("+", term(k1, v), C(7)), C(2)), None, target="LLL", contexts=S.CONTEXTS_ROOT, refuse=True)
        return inst("BM", ("=", ("+", ("/", term(k1, v), C(15)), C(3)), C(3)), None, target="LLR", contexts=S.CONTEXTS_ROOT, refuse=True)
    raise KeyError(name)


def _sum_folded(res, lhs, k1, k2):
    want = remove_all(operands(norm(lhs), "+"), [norm(C(k1)), norm(C(k2))])
    got = operands(norm(res), "+")
    rest = remove_all(got, want)
    return rest is not None and len(rest) == 1 and is_const(rest[0]) and close(rest[0][1], cval(k1) + cval(k2))


SCHEMAS = [
    "CS-add", "CS-mul", "CS-compound", "CS0-mul", "CS0-term-refuse", "CS0-term-in-product", "CS-chain", "CS-flip", "CS-refuse", "AG-left", "AG-right", "AG-both", "AG-refuse", "CA-simple", "CA-neg", "CA-sibling", "CA-alt", "CA-refuse",
    "DF-simple", "DF-chained-left", "DF-chained-right", "DF-constants", "DF-constants-refuse", "DF-refuse", "DM-right", "DM-left", "DM-refuse", "MI", "MI-neg",
    "MI-refuse", "RS-sub", "RS-sub-const", "RS-sub-term", "RS-sub-quotient", "RS-sub-negconst", "RS-sub-negvar", "RS-sub-negterm", "RS-add-negconst", "RS-add-negterm", "RS-refuse",
    "VM", "VM-refuse", "BM-add", "BM-add3", "BM-mul", "BM-refuse", "CA-zero",
]


@st.composite
def params(draw, name):
    nz = S.coef
    p = {"i": draw(st.integers(0, 59)), "rule_alt": draw(st.integers(0, 1)), "ctx": draw(st.integers(0, 99))}
    p["v"] = draw(S.var)
    p["w"] = draw(S.var.filter(lambda c: c != p["v"]))
    if name.startswith("DM") or name.startswith("CS") or name.startswith("AG") or name in ("RS-sub",):
        p["A"], p["B"], p["G"] = draw(S.atom()), draw(S.atom()), draw(S.atom())
        if name == "RS-sub":
            # B must be neither a constant nor led by a constant / negation (those are the other RS forms)
            p["B"] = draw(S.atom().filter(lambda a: a[0] in ("v", "^", "sgn")))
        if name in ("CS-add", "CS-mul", "CS-flip"):
            p["B"] = draw(S.atom().filter(lambda x: norm(x) != norm(p["A"])))
        if name == "CS0-mul":
            p["A"] = draw(S.atom().filter(lambda x: x[0] != "c"))
            p["B"] = draw(S.atom().filter(lambda x: norm(x) != norm(p["A"]) and not (x[0] == "^" and x[1][0] == "v" and x[2][0] == "c")))
    if name == "CS-chain":
            p["G"] = draw(S.atom().filter(lambda x: norm(x) != norm(p["B"])))
    if name == "CS-compound":
        at = S.atom()
        inner = ["-", "/", "neg", "^", "*"] if p["rule_alt"] % 2 else ["-", "/", "neg", "^", "+"]
        def comp(draw_):
            k = draw_(st.sampled_from(inner))
            if k == "neg":
                return ("neg", draw_(at))
            if k == "^":
                return ("^", draw_(at.filter(lambda x: x[0] == "v")), draw_(at.filter(lambda x: x[0] in ("v", "c"))))
            return (k, draw_(at), draw_(at))
        p["CA"] = comp(draw)
        p["CB"] = draw(st.one_of(at, at)) if draw(st.integers(0, 2)) else comp(draw)
        if norm(p["CA"]) == norm(p["CB"]):
            p["CB"] = V("q")
    elif name.startswith("MI") or name.startswith("RS") or name.startswith("BM") or name in ("DF-chained-left", "DF-chained-right", "CA-alt"):
        p["A"], p["B"] = draw(S.anyexp()), draw(S.anyexp().filter(lambda a: a[0] != "neg"))
        if name.startswith("DF"):
            # the kept addend must not itself be a like term or change the arrangement
            p["A"] = draw(S.atom().filter(lambda a: a[0] in ("sgn", "/") or (a[0] == "^" and a[1][0] == "+")))
        if name in ("BM-add", "BM-add3"):
            p["A"] = draw(S.atom())
            p["B"] = draw(S.anyexp())
            p["G"] = draw(S.atom())
        if name == "BM-mul":
            p["R"] = draw(S.atom())
    p["k1"], p["k2"] = draw(nz), draw(nz)
    p["m"] = draw(st.one_of(st.none(), S.expo))
    p["n"] = draw(st.one_of(st.none(), S.expo))
    if name in ("DF-simple", "VM"):
        if draw(st.integers(0, 3)) == 0:
            p["k1"] = None
        if draw(st.integers(0, 3)) == 0:
            p["k2"] = None
    if name == "VM":
        z = draw(st.integers(0, 9))
        if z == 0:
            p["k1"] = draw(st.sampled_from([0, 0.0, 1, -1]))
        elif z == 1:
            p["k2"] = draw(st.sampled_from([0, 0.0, 1, -1]))
    if name == "CA-simple":
        p["op"] = draw(st.sampled_from(["+", "-", "*", "/", "^"]))
        if p["op"] == "^":
            p["k2"] = draw(st.integers(-3, 6))
            if p["k2"] < 0 or isinstance(p["k1"], float):
                p["k1"] = draw(st.integers(1, 9))
    if name == "DF-refuse":
        # nothing in common: distinct prime coefficients (a shared numeric factor may legitimately be pulled out)
        p["k1"] = draw(st.sampled_from([2, 3, 5, 7, 11]))
        p["k2"] = draw(st.sampled_from([2, 3, 5, 7, 11]).filter(lambda q: q != p["k1"]))
    if name in ("DF-constants", "DF-constants-refuse"):
        p["k"], p["p"], p["q"] = draw(st.integers(2, 9)), draw(st.integers(1, 9)), draw(st.integers(1, 9))
    return {"schema": name, "p": p}


def check_instance(ctx, case):
    name = case["schema"]
    p = {k: tup(v) for k, v in case["p"].items()}
    try:
        ins = build_instance(name, p)
    except (X.Undefined, ZeroDivisionError, OverflowError):
        ctx.count("skipped:undefined-parameters")
        return
    ctxs = ins["contexts"]
    cx = ctxs[p["ctx"] % len(ctxs)]
    full = S.subst(cx, ins["lhs"])
    text = S.text(full)
    root = E.parse(text)
    ctx.count("instances")
    ctx.count("schema:" + name)
    if root is None or norm(S.tree_to_ast(root)) != norm(full) or X.has_nonfinite(root):
        ctx.count("skipped:render-mismatch")
        return
    path = S.hole_path(cx) + ins["target"]
    target = A.follow(root, path)
    if target is None:
        ctx.count("skipped:render-mismatch")
        return
    r = rule(ins["rule"])
    det = {"schema": name, "rule": ins["rule"], "text": text, "target": E.text_of(target)}
    try:
        can = r.can_apply_to(target)
    except Exception as e:
        det["error"] = repr(e)[:200]
        return ctx.fail((name, "can_apply_to-raised"), case, det)
    ctx.nontriv(text + "|" + ins["rule"] + "|" + path)
    if ins["refuse"]:
        if can:
            return ctx.fail((name, "accepted-a-documented-refusal"), case, det)
        ctx.sample({"schema": name, "text": text, "target": det["target"], "refused": True}, cap=1, group=name)
        return
    if not can:
        return ctx.fail((name, "refused-a-documented-form"), case, det)
    lhs_ast = S.tree_to_ast(A.follow(root, S.hole_path(cx)))
    ap = E.apply(r, target)
    if ap.error is not None or ap.result is None:
        det["error"] = repr(ap.error)[:200]
        return ctx.fail((name, "apply-raised"), case, det)
    if X.has_nonfinite(ap.result_root):
        ctx.count("excluded_nonfinite")
        return
    try:
        res_ast = S.tree_to_ast(ap.result)
    except Exception as e:
        det["error"] = repr(e)[:200]
        return ctx.fail((name, "malformed-result"), case, det)
    det["result"] = E.text_of(ap.result)
    if ins["rule"] == "AG" and getattr(ap.result, "id", None) != target.id:
        # regrouping is asked for at the target: it is the target that moves above its parent (clones keep ids)
        det["why"] = "a different node was regrouped"
        return ctx.fail((name, "regrouped-a-different-node"), case, det)
    why = ins["matcher"](res_ast, lhs_ast)
    if why is not None:
        det["why"] = why
        return ctx.fail((name, "wrong-shape"), case, det)
    ctx.sample({"schema": name, "text": text, "target": det["target"], "result": det["result"]}, cap=1, group=name)


def replay(ctx, case):
    check_instance(ctx, case)


def run(ctx):
    strat = st.sampled_from(SCHEMAS).flatmap(params)
    hyp_run(ctx, "schema-instances", strat, check_instance, ctx.n(8000, 60000))
