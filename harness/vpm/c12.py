"""C12 — parser results do not depend on call history."""
from hypothesis import strategies as st

from . import audit as A
from . import engine as E
from .runner import hyp_settings

PROP = "C12"
LEVEL = "exploration"
RULE = (
    "Hypothesis rule-based state machine over ONE long-lived ExpressionParser and the bag of token lists it has handed "
    "out; rules: parse(s), tokenize(s), list-level edit of a handed-out token list (pop front/back, delete, insert, "
    "reverse, clear, consume all), clear_cache(), query(s); strings come from a pool of 37 valid and invalid texts (one per failure class, plus pairs differing only in blanks/case) so "
    "repeats are frequent; after every parse/tokenize/query step the used parser's result is compared with a fresh "
    "parser's (structural signature of the tree or exception class; (type, value) list of the tokens) and a handed-out "
    "list must be a new list object; every pool string is queried at the end; non-trivial = some text requested at "
    "least twice with a failure, an edit or a clear_cache in between; distinct by history"
)
ASSUMPTIONS = [
    "the tree returned by parse is the cached object itself; mutating returned TREES or the fields of shared Token objects is not among the operations the property quantifies over and is not done",
]

POOL = [
    # valid
    "x + 1", "2x^2 + 3x", "4 / (y - 1)", "sgn(x) * 3!", "x = 2y + 1", "-(a + b)^2", "7", "xyz", "12", "sgn(x)", "2x", "1.5",
    # valid/invalid pairs that differ only in blanks or case (a cache key must not identify them)
    "1 2", "s gn(x)", "2 x", "1. 5", "x+1", " x + 1 ", "SGN(x)", "x\t+ 1", "x\x0b+ 1",
    # one text per failure class: empty, unexpected end, bad number, bad character, missing operand, bad start,
    # doubled operator, TRAILING tokens after a complete prefix (several shapes), unbalanced brackets
    "(", "x +", "1.2.3", "x ? y", "", "2 ^", ")x(", "4 + + 2", "x 2", "12 4", "x + 1)", "4x + 2y) * 7", "(x))", "3!!", "x = ", "= x",
    # failures with many groups still open, and the bracketed texts that must keep working afterwards
    "(((((((((( 1 + ", "sgn(sgn(sgn(sgn(sgn(sgn(sgn(sgn(1", "(1 + 2) * x", "4 * sgn(x)",
    # texts whose printed form is another text (printing is not the inverse of parsing)
    "4 * -(3)", "4 * -3", "2.0x + 1", "2x + 1", "12.", "x^(2)", "x^2",
]
EDITS = ["pop_front", "pop_back", "delete", "insert", "reverse", "clear", "consume", "dup"]


def tok_view(tokens):
    return [(t.type, t.value) for t in tokens]


class Interp:
    def __init__(self, ctx):
        from mathy_core.parser import ExpressionParser

        self.ctx = ctx
        self.P = ExpressionParser
        self.parser = ExpressionParser()
        self.handed = []
        self.history = []
        self.requested = {}  # text -> disturbed since first request?
        self.nontrivial = False

    def fail(self, bucket, detail):
        self.ctx.fail(bucket, {"history": self.history}, detail)
        return False

    def note_request(self, s):
        if s in self.requested and self.requested[s]:
            self.nontrivial = True
        self.requested.setdefault(s, False)

    def disturb(self):
        for k in self.requested:
            self.requested[k] = True

    def check_parse(self, s, i):
        def out(p):
            try:
                return "ok", p.parse(s)
            except E.parse_errors() as e:
                return "rejected", e
            except Exception as e:
                return "internal", e

        k1, v1 = out(self.parser)
        k2, v2 = out(self.P())
        self.ctx.count("parse_checks")
        if k2 == "internal":
            return True  # C10's business; nothing to compare against
        if k1 != k2:
            return self.fail(("parse-outcome", f"{k2}->{k1}"), {"step": i, "string": s, "used": repr(v1)[:120], "fresh": k2})
        if k1 == "ok":
            if A.sig(v1) != A.sig(v2):
                return self.fail(("parse-tree-differs",), {"step": i, "string": s, "used": E.text_of(v1), "fresh": E.text_of(v2)})
        else:
            if type(v1) is not type(v2):
                return self.fail(("parse-exception-differs",), {"step": i, "string": s, "used": type(v1).__name__, "fresh": type(v2).__name__})
            self.disturb()
        return True

    def check_tokenize(self, s, i):
        def out(p):
            try:
                return "ok", p.tokenize(s)
            except ValueError as e:
                return "rejected", e
            except Exception as e:
                return "internal", e

        k1, v1 = out(self.parser)
        k2, v2 = out(self.P())
        self.ctx.count("tokenize_checks")
        if k1 != k2:
            return self.fail(("tokenize-outcome", f"{k2}->{k1}"), {"step": i, "string": s, "used": repr(v1)[:120]})
        if k1 == "ok":
            if tok_view(v1) != tok_view(v2):
                return self.fail(("tokens-differ",), {"step": i, "string": s, "used": tok_view(v1)[:12], "fresh": tok_view(v2)[:12]})
            if any(v1 is h for h in self.handed):
                return self.fail(("token-list-aliased",), {"step": i, "string": s})
            self.handed.append(v1)
        else:
            self.disturb()
        return True

    def step(self, st_):
        i = len(self.history)
        self.history.append(st_)
        op = st_[0]
        if op == "parse":
            self.note_request(st_[1])
            return self.check_parse(st_[1], i)
        if op == "tokenize":
            self.note_request(st_[1])
            return self.check_tokenize(st_[1], i)
        if op == "query":
            self.note_request(st_[1])
            return self.check_tokenize(st_[1], i) and self.check_parse(st_[1], i) and self.check_tokenize(st_[1], i)
        if op == "clear":
            self.parser.clear_cache()
            self.disturb()
            return True
        if op == "edit":
            if not self.handed:
                return True
            lst = self.handed[st_[1] % len(self.handed)]
            kind = st_[2]
            pos = st_[3]
            self.ctx.count("edits")
            self.disturb()
            if kind == "clear":
                lst.clear()
            elif kind == "consume":
                while lst:
                    lst.pop(0)
            elif kind == "reverse":
                lst.reverse()
            elif not lst:
                return True
            elif kind == "pop_front":
                lst.pop(0)
            elif kind == "pop_back":
                lst.pop()
            elif kind == "delete":
                del lst[pos % len(lst)]
            elif kind == "insert":
                lst.insert(pos % (len(lst) + 1), lst[0])
            elif kind == "dup":
                lst.extend(lst[:])
            return True
        raise ValueError(st_)

    def finish(self):
        for s in POOL:
            if not self.step(["query", s]):
                return False
        return True


def run_history(ctx, steps, final=True):
    it = Interp(ctx)
    for s in steps:
        if not it.step(list(s)):
            return it
    if final:
        it.finish()
    return it


def replay(ctx, case):
    run_history(ctx, case["history"], final=False)


def stress_histories():
    """Deterministic long histories: each invalid text 40 times in a row, 300 distinct valid texts after a
    failure, every text after every other text (printed-form / blank-variant collisions)."""
    invalid = [s for s in POOL if E.parse(s) is None]
    hs = []
    for bad in invalid:
        hs.append([["parse", bad]] * 40 + [["query", q] for q in POOL])
    hs.append([["parse", "4x +"], ["tokenize", "9 9"]] + [["parse", f"{k}x + {k + 1}"] for k in range(300)] + [["query", q] for q in POOL])
    for a in POOL:
        hs.append([["query", a]] + [["query", b] for b in POOL])
    # early texts requested again after many other distinct texts (bounded / evicting caches)
    many = [f"{k}x + {k + 1}" for k in range(120)]
    hs.append([["parse", t] for t in many] + [["query", t] for t in many[:60]] + [["tokenize", t] for t in many[60:]] + [["query", t] for t in many])
    return hs


def run(ctx):
    for i, h in enumerate(stress_histories()):
        if i % ctx.nshards != ctx.shard:
            continue
        ctx.count("evaluations")
        ctx.count("stress_histories")
        it = run_history(ctx, h, final=False)
        ctx.count("steps", len(h))
        ctx.nontriv(("stress", i))
    from hypothesis import seed
    from hypothesis.stateful import RuleBasedStateMachine, rule, run_state_machine_as_test
    from hypothesis import settings

    pool = st.sampled_from(POOL)

    class Machine(RuleBasedStateMachine):
        def __init__(self):
            super().__init__()
            self.it = Interp(ctx)
            ctx.count("evaluations")

        @rule(s=pool)
        def parse(self, s):
            self.it.step(["parse", s])

        @rule(s=pool)
        def tokenize(self, s):
            self.it.step(["tokenize", s])

        @rule(s=pool)
        def query(self, s):
            self.it.step(["query", s])

        @rule(i=st.integers(0, 20), kind=st.sampled_from(EDITS), pos=st.integers(0, 30))
        def edit(self, i, kind, pos):
            self.it.step(["edit", i, kind, pos])

        @rule()
        def clear_cache(self):
            self.it.step(["clear"])

        def teardown(self):
            if ctx.failure is None or True:
                n = len(self.it.history)
                ok = self.it.finish()
                ctx.count("steps", n)
                if ok and self.it.nontrivial:
                    ctx.nontriv(repr(self.it.history[:n]))
                if ok:
                    ctx.sample({"history": self.it.history[:n]}, cap=5)

    base = hyp_settings(ctx, ctx.n(1500, 6000))
    stg = settings(base, stateful_step_count=30 if ctx.tier == "quick" else 60)
    run_state_machine_as_test(seed(ctx.hseed("machine"))(Machine), settings=stg)
