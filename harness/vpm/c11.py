"""C11 — tokenizing is lossless, total and faithful to character classes."""
from hypothesis import strategies as st

from .runner import hyp_run

PROP = "C11"
LEVEL = "exploration"
RULE = (
    "strings over the supported alphabet weighted toward digit/dot runs, letter runs containing 'sgn' as substring / "
    "prefix / suffix / whole run, en-dashes, brackets and mixed whitespace, plus strings with arbitrary unicode "
    "characters; both padding modes; oracle: (1) concatenated token values (padding kept) == input after the three "
    "documented substitutions, (2) (type, value) list == an independent reference tokenizer's (maximal digit/dot runs, "
    "one variable per letter unless the maximal letter run is exactly a function name, one token per operator "
    "character), (3) exactly one end marker, last, (4) padding-free list == padded list minus whitespace tokens, "
    "(5) any unsupported character raises ValueError and nothing else; non-trivial = >= 2 token classes or an "
    "unsupported character; distinct by string"
)
ASSUMPTIONS = ["the registered function names are exactly {'sgn'} (Tokenizer.functions of a fresh Tokenizer is consulted only to detect a change of that set, which is reported in evidence)"]

OPS = {"+": "Plus", "-": "Minus", "–": "Minus", "*": "Multiply", "/": "Divide", "^": "Exponent", "!": "Factorial", "(": "OpenParen", "[": "OpenParen", ")": "CloseParen", "]": "CloseParen", "=": "Equal"}
NORMAL = {"–": "-", "[": "(", "]": ")"}
WS = " \t\r\n"


def is_alpha(c):
    return ("a" <= c <= "z") or ("A" <= c <= "Z")


def is_num(c):
    return c == "." or ("0" <= c <= "9")


def reference_tokens(s, keep_padding):
    """[(type name, value)] or ('error',) for an unsupported character."""
    out = []
    i = 0
    while i < len(s):
        c = s[i]
        if is_num(c):
            j = i
            while j < len(s) and is_num(s[j]):
                j += 1
            out.append(("Constant", s[i:j]))
            i = j
        elif is_alpha(c):
            j = i
            while j < len(s) and is_alpha(s[j]):
                j += 1
            run = s[i:j]
            if run == "sgn":
                out.append(("Function", run))
            else:
                out.extend(("Variable", ch) for ch in run)
            i = j
        elif c in WS:
            if keep_padding:
                out.append(("Pad", c))
            i += 1
        elif c in OPS:
            out.append((OPS[c], NORMAL.get(c, c)))
            i += 1
        else:
            return ("error",)
    out.append(("EOF", ""))
    return out


def type_names():
    from mathy_core.tokenizer import TOKEN_TYPES

    return {v: k for k, v in vars(TOKEN_TYPES).items() if isinstance(v, int) and not k.startswith("_")}


piece = st.one_of(
    st.sampled_from(list("0123456789")),
    st.sampled_from(list("0123456789.")),
    st.sampled_from(["12", "3.5", ".", "..", "1.2.3", "007", "9."]),
    st.sampled_from(list("xyzabsgnSGN")),
    st.sampled_from(list("abcdefghijklmnopqrstuvwxyzABCDEFGHIJKLMNOPQRSTUVWXYZ")),
    st.sampled_from(["2e3", "1e5", "1.5e10", "2E3", "7e", "e7", "1e-5", "pi", "inf", "nan", "0x1F", "1j", "2i", "1_000", "abs", "sin", "log", "sqrt", "exp"]),
    st.sampled_from(["sgn", "sgn", "sgnx", "xsgn", "ssgn", "sg", "gn", "sgnsgn", "Sgn", "SGN", "sgn(", "sgn ", " sgn", "2sgn", "sgn2"]),
    st.sampled_from(list("+-*/^!=()[]")),
    st.sampled_from(["–", "–", " ", "  ", "\t", "\n", "\r", "\r\n"]),
)
supported = st.lists(piece, max_size=14).map("".join)
foreign = st.one_of(st.characters(), st.sampled_from(list("_,;:'\"#$%&?@\\`{|}~<>") + ["é", "×", "÷", "−", "—", "²", "π", " ", "\x00", "٣", "１"]))
exotic_blank = st.sampled_from(["\x0b", "\x0c", "\x1c", "\x1f", "\x85", "\xa0", "\u2003", "\u3000", "\u200b", "\ufeff"])
after_padding = st.builds(lambda a, ws, f, b: a + ws + f + b, supported, st.sampled_from([" ", "\t", "\n", "  ", "\r\n"]), exotic_blank, supported)
with_foreign = st.one_of(st.builds(lambda a, f, b: a + f + b, supported, foreign, supported), after_padding)


def check_string(ctx, case):
    from mathy_core.tokenizer import Tokenizer

    s = case["s"]
    names = type_names()
    key_nontrivial = False
    for keep in (True, False):
        want = reference_tokens(s, keep)
        tk = Tokenizer(exclude_padding=not keep)
        if set(tk.functions) != {"sgn"}:
            ctx.info["function_names_changed"] = sorted(tk.functions)
        try:
            toks = tk.tokenize(s)
            got = [(names.get(t.type, str(t.type)), t.value) for t in toks]
            err = None
        except ValueError as e:
            got = None
            err = e
        except Exception as e:
            return ctx.fail(("internal-error", type(e).__name__), case, {"padding_kept": keep, "error": repr(e)[:200]})
        ctx.count("tokenize_calls")
        if want == ("error",):
            key_nontrivial = True
            if err is None:
                return ctx.fail(("unsupported-character-accepted",), case, {"padding_kept": keep, "tokens": got[:20]})
            continue
        if err is not None:
            return ctx.fail(("supported-string-rejected",), case, {"padding_kept": keep, "error": repr(err)[:200]})
        if got != want:
            return ctx.fail(("token-list-differs", "padded" if keep else "unpadded"), case, {"padding_kept": keep, "got": got[:30], "want": want[:30]})
        if keep:
            joined = "".join(v for _, v in got)
            norm = "".join(NORMAL.get(c, c) for c in s)
            if joined != norm:
                return ctx.fail(("lossy",), case, {"joined": joined, "normalised_input": norm})
            padded = got
        else:
            if got != [t for t in padded if t[0] != "Pad"]:
                return ctx.fail(("padding-mode-differs",), case, {"padded": padded[:30], "unpadded": got[:30]})
        if [t[0] for t in got].count("EOF") != 1 or got[-1][0] != "EOF":
            return ctx.fail(("end-marker",), case, {"tokens": got[-5:]})
        if len({t[0] for t in got}) >= 3:
            key_nontrivial = True
    if key_nontrivial:
        ctx.nontriv(s)
    ctx.sample(case)


def replay(ctx, case):
    check_string(ctx, case)


CHARS = list("abcdefghijklmnopqrstuvwxyz") + list("SGNEX") + list("0123456789") + ["."] + list("+-*/^!=()[]") + [" ", "\t", "\n", "–"]


def run(ctx):
    # bounded-exhaustive part: every string of <= 3 (quick) / 4 (thorough) characters over every lower-case letter, five
    # capitals, the digits, the dot, every operator and bracket, three blanks and the en-dash alias
    import itertools

    bound = 3 if ctx.tier == "quick" else 4
    n = 0
    for k in range(1, bound + 1):
        for seq in itertools.product(CHARS, repeat=k):
            n += 1
            if n % ctx.nshards != ctx.shard:
                continue
            ctx.count("evaluations")
            ctx.count("exhaustive_strings")
            check_string(ctx, {"s": "".join(seq)})
    ctx.info["exhaustive_character_sequences"] = f"all {n} strings of <= {bound} characters over {len(CHARS)} characters"
    # longer runs around the one function name: every string of <= 5 (quick) / 7 (thorough) characters over s g n x 2 ( and blank
    small = ["s", "g", "n", "x", "2", "(", " "]
    fb = 5 if ctx.tier == "quick" else 7
    m = 0
    for k in range(4, fb + 1):
        for seq in itertools.product(small, repeat=k):
            m += 1
            if m % ctx.nshards != ctx.shard:
                continue
            ctx.count("evaluations")
            ctx.count("exhaustive_function_name_strings")
            check_string(ctx, {"s": "".join(seq)})
    ctx.info["exhaustive_function_name_strings"] = f"all {m} strings of 4..{fb} characters over {small}"
    # long lexemes: a digit/dot run, a letter run (ending in / starting with / without the function name), a blank run and a
    # bracket run of every length up to 70 and around every power of two up to 4096 (quick) / 65536 (thorough), at four
    # offsets from the start of the text - maximal munch and the function-name test must not depend on a lexeme's length
    lengths = sorted(set(range(1, 71)) | {p + d for e in range(7, 13 if ctx.tier == "quick" else 17) for p in [2 ** e] for d in (-1, 0, 1)})
    k = 0
    for L in lengths:
        runs = [
            "1" * L,
            ("1234567890" * (L // 10 + 1))[:L],
            "1" * (L // 2) + "." + "1" * (L - L // 2 - 1),
            "x" * L,
            ("xyzabc" * (L // 6 + 1))[:L],
            " " * L,
            "(" * L,
        ]
        if L > 3:
            runs += ["x" * (L - 3) + "sgn", "sgn" + "x" * (L - 3), "x" * ((L - 3) // 2) + "sgn" + "x" * (L - 3 - (L - 3) // 2)]
        for r in runs:
            for pre, post in (("", ""), ("2+", "*y"), (" ", " sgn(3)"), ("sgn(", ")")):
                k += 1
                if k % ctx.nshards != ctx.shard:
                    continue
                ctx.count("evaluations")
                ctx.count("long_lexeme_strings")
                check_string(ctx, {"s": pre + r + post})
    ctx.info["long_lexemes"] = f"{k} strings: 10 run kinds x {len(lengths)} lengths (1..70 and 2^e-1, 2^e, 2^e+1 up to {max(lengths)}) x 4 contexts"
    long_run = st.builds(lambda c, n, tail: c * n + tail, st.sampled_from(["1", "7.", "x", "ab", " ", "(", "-"]), st.integers(15, 300), st.sampled_from(["", "sgn", "sgn(", ".5", "x"]))
    supported_long = st.builds(lambda a, r, b: a + r + b, supported, long_run, supported)
    strat = st.one_of(supported, supported, supported, with_foreign, supported_long).map(lambda s: {"s": s})
    hyp_run(ctx, "strings", strat, check_string, ctx.n(10000, 150000))
    if ctx.tier == "thorough":
        from . import fuzz

        fuzz.campaign(ctx, "c11")
