"""C06 — can_apply_to implies apply_to works; the applicability check is pure; node search is exact."""
from . import audit as A
from . import engine as E
from . import exact as X
from . import gen as G
from .runner import hyp_run

PROP = "C06"
LEVEL = "exploration"
EVALUATION_COUNTER = "tree_rule_pairs"
RULE = (
    "G-tree trees (grammar ASTs, rule-shaped templates in drawn contexts, repository example inputs; 0-4 "
    "pre-rewrites) x all 11 rule instances x every node; oracle: identity/structure/payload snapshot equal "
    "before and after two can_apply_to calls with equal answers, apply_to on a clone_from_root copy returns a "
    "change whose result is an expression, find_nodes == own in-order filter with r_index == in-order position, "
    "find_node == first; a (tree, rule) pair is non-trivial when >= 1 node is applicable; distinct by (tree text, pre, rule)"
)
ASSUMPTIONS = [
    "trees with NaN/inf constants are outside the domain (DESIGN 3.3)",
    "apply_to is exercised on clone_from_root copies, as agents and the repository's own tests do",
]


def snapshot(root):
    return (A.idsig(root), [(id(n), sorted((k, repr(v)) for k, v in vars(n).items() if k in ("value", "identifier", "id", "child_on_left"))) for n in A.preorder(root)])


def check_tree(ctx, case):
    root = E.build_tree(ctx, case)
    if root is None:
        return
    nodes = A.inorder(root)
    ctx.count("trees")
    ctx.count("nodes", len(nodes))
    text = E.text_of(root)
    sampled = False
    from mathy_core.expressions import MathExpression

    fresh = dict(E.rule_instances())
    for name, rule in E.rules():
        ctx.count("tree_rule_pairs")
        before = snapshot(root)
        answers = []
        for n in nodes:
            try:
                a1 = rule.can_apply_to(n)
                a2 = rule.can_apply_to(n)
            except Exception as e:
                return ctx.fail(("can_apply_to-raised", name) + E.exc_site(e), case, {"tree": text, "node": E.text_of(n), "error": repr(e)})
            if a1 != a2 or not isinstance(a1, bool):
                return ctx.fail(("can_apply_to-unstable", name), case, {"tree": text, "node": E.text_of(n), "answers": [repr(a1), repr(a2)]})
            answers.append(a1)
            # the answer depends on the tree only: a rule object that has seen other trees (the long-lived
            # instance shared by this whole run, including this tree's ancestors in the pre-rewrites) must
            # agree with a newly constructed one
            try:
                a3 = fresh[name].can_apply_to(n)
            except Exception:
                a3 = a1
            if a3 != a1:
                return ctx.fail(("can_apply_to-depends-on-history", name), case, {"tree": text, "node": E.text_of(n), "long_lived_instance": a1, "fresh_instance": a3})
        ctx.count("can_apply_calls", 2 * len(nodes))
        if snapshot(root) != before:
            return ctx.fail(("can_apply_to-mutates", name), case, {"tree": text})
        want = [n for n, a in zip(nodes, answers) if a]
        # node search
        try:
            found = rule.find_nodes(root)
            first = rule.find_node(root)
        except Exception as e:
            return ctx.fail(("find-raised", name) + E.exc_site(e), case, {"tree": text, "error": repr(e)})
        if [id(x) for x in found] != [id(x) for x in want]:
            return ctx.fail(("find_nodes-set", name), case, {"tree": text, "found": [E.text_of(x) for x in found], "want": [E.text_of(x) for x in want]})
        for i, n in enumerate(nodes):
            if getattr(n, "r_index", None) != i:
                return ctx.fail(("find_nodes-r_index", name), case, {"tree": text, "position": i, "r_index": repr(getattr(n, "r_index", None))})
        if first is not (want[0] if want else None):
            return ctx.fail(("find_node-first", name), case, {"tree": text, "found": E.text_of(first) if first is not None else None})
        if A.idsig(root) != before[0]:
            return ctx.fail(("find-mutates", name), case, {"tree": text})
        if want:
            ctx.nontriv((case["text"], repr(case.get("pre")), name))
            if not sampled:
                ctx.sample({"tree": text, "rule": name, "applicable_at": [E.text_of(x) for x in want[:4]]})
                sampled = True
        for n in want:
            ap = E.apply(rule, n)
            ctx.count("applications")
            ctx.count(f"applied:{name}:{ap.arrangement}")
            if ap.error is not None:
                return ctx.fail(("apply-raised", name, ap.arrangement) + E.exc_site(ap.error), case, {"tree": text, "node": E.text_of(n), "error": repr(ap.error)})
            if not isinstance(ap.result, MathExpression):
                return ctx.fail(("apply-result-type", name, ap.arrangement), case, {"tree": text, "node": E.text_of(n), "result": repr(ap.result)})


def check_inplace(ctx, case):
    """'The same answer for the same tree' along an IN-PLACE sequence: one set of long-lived rule objects is asked about
    every node before every step (a move mask), a rewrite is applied in place (node objects and ids survive), and after every
    step each long-lived object must answer exactly like a newly constructed rule on every node - and applying where it says
    yes must not raise."""
    from mathy_core.expressions import MathExpression

    root = E.parse(case["text"])
    if root is None or X.has_nonfinite(root) or E.has_huge_constant(root):
        return
    rules = E.rule_instances()
    ctx.count("inplace:walks")
    for stepno, (ri, ni) in enumerate(case["steps"] + [[0, 0]]):
        nodes = A.inorder(root)
        text = E.text_of(root)
        fresh = dict(E.rule_instances())
        mask = {}
        for name, rule in rules:
            ctx.count("tree_rule_pairs")
            for n in nodes:
                try:
                    a1 = rule.can_apply_to(n)
                except Exception as e:
                    return ctx.fail(("can_apply_to-raised", name) + E.exc_site(e), case, {"tree": text, "node": E.text_of(n), "error": repr(e), "mode": "in place"})
                try:
                    a3 = fresh[name].can_apply_to(n)
                except Exception:
                    a3 = a1
                if a1 != a3:
                    return ctx.fail(("can_apply_to-depends-on-history", name), case, {"tree": text, "node": E.text_of(n), "long_lived_instance": a1, "fresh_instance": a3, "after_steps": stepno, "mode": "in place"})
                if a1:
                    mask.setdefault(name, []).append(n)
        if stepno == len(case["steps"]):
            break
        name, rule = rules[ri % len(rules)]
        cands = mask.get(name)
        if not cands:
            continue
        n = cands[ni % len(cands)]
        arrangement = E.arrangement(rule, n)
        try:
            res = rule.apply_to(n).result
        except Exception as e:
            return ctx.fail(("apply-raised", name, arrangement) + E.exc_site(e), case, {"tree": text, "node": E.text_of(n), "error": repr(e), "after_steps": stepno, "mode": "in place"})
        ctx.count("applications")
        if not isinstance(res, MathExpression):
            return ctx.fail(("apply-result-type", name, arrangement), case, {"tree": text, "node": E.text_of(n), "result": repr(res)})
        try:
            root = E._root(res)
        except RuntimeError:
            return
        if A.audit(root) is not None or X.has_nonfinite(root) or E.has_huge_constant(root):
            ctx.count("inplace:stopped(malformed/nonfinite/huge)")
            return
        if stepno >= 1:
            ctx.nontriv(("inplace", case["text"], repr(case["steps"][: stepno + 1])))


HUGE_TEXTS = [
    "10^400", "x + 2^1024", "y * 12^(7^3)", "(9^200)x * 9^200", "2^2000 * 3", "7^500 + 1", "3 * 10^400", "10^400 - 1", "-(2^1100 + 1)", "2^1024 * 2^1024",
    "10^400 + 10^400", "x^2 * 12^343", "5 + (10^310 + x)", "2^1023 * 2", "2^1024 / 2", "10^308 * 10", "(10^200)^2", "4 * (x * 10^400)", "10^400 = x", "x - 10^400",
    "1" + "0" * 400 + " + 1", "1" + "0" * 320 + "x * 2", "2 * " + "9" * 330,
]
NO_FACTORING = ("AG", "CS1", "CS0", "CA", "DM", "MI", "RS", "VM")


def check_huge(ctx, case):
    """Integers beyond the double range are ordinary values of this library (integer powers are exact): on trees containing
    or producing them, a rule that says it applies must still apply without raising. Only the rules that never call the
    trial-division factor() are used (that one is slow, not wrong, on such numbers), two steps deep."""
    from mathy_core.expressions import MathExpression

    root = E.parse(case["text"])
    if root is None:
        return
    rules = dict(E.rule_instances())
    frontier = [root]
    for depth in range(2):
        nxt = []
        for tree in frontier:
            for name in NO_FACTORING:
                rule = rules[name]
                for n in A.inorder(tree):
                    try:
                        ok = rule.can_apply_to(n)
                    except Exception as e:
                        return ctx.fail(("can_apply_to-raised", name) + E.exc_site(e), case, {"node_kind": A.kind(n), "error": repr(e)[:200], "depth": depth})
                    if not ok:
                        continue
                    ap = E.apply(rule, n)
                    ctx.count("applications")
                    ctx.count("huge:applications")
                    if ap.error is not None:
                        return ctx.fail(("apply-raised", name, ap.arrangement) + E.exc_site(ap.error), case, {"node_kind": A.kind(n), "error": repr(ap.error)[:200], "depth": depth})
                    if not isinstance(ap.result, MathExpression):
                        return ctx.fail(("apply-result-type", name, ap.arrangement), case, {"result": repr(ap.result)[:100]})
                    if ap.result_root is not None and A.audit(ap.result_root) is None and len(nxt) < 12:
                        nxt.append(ap.result_root)
        frontier = nxt
    ctx.nontriv(("huge", case["text"]))


def replay(ctx, case):
    if case.get("huge"):
        return check_huge(ctx, case)
    if "steps" in case:
        return check_inplace(ctx, case)
    check_tree(ctx, case)


def run(ctx):
    # deterministic sweep: every rule template x every coefficient coincidence (root and nested position)
    texts = G.sweep_texts()
    for i, t in enumerate(texts):
        if i % ctx.nshards != ctx.shard:
            continue
        ctx.count("evaluations")
        ctx.count("sweep:cases")
        check_tree(ctx, {"text": t, "pre": []})
    ctx.info["template_sweep_size"] = len(texts)
    # one edit away from every rule template (operator, leaf kind, operand order): near-miss shapes
    near = G.neighbour_texts()
    step = 3 if ctx.tier == "quick" else 1  # quick: every third text, the offset chosen by the seed
    for i, t in enumerate(near):
        if i % step != ctx.seed % step or (i // step) % ctx.nshards != ctx.shard:
            continue
        ctx.count("evaluations")
        ctx.count("near-miss:cases")
        check_tree(ctx, {"text": t, "pre": []})
    ctx.info["near_miss_sweep_size"] = f"{len(near)} texts one edit away from a rule template; every {step}th checked in this tier"
    # bounded-exhaustive small expressions: every tree with <= 2 (quick) / 3 (thorough) binary operators over 6 leaves
    small = G.small_expressions(2 if ctx.tier == "quick" else 3)
    for i, t in enumerate(small):
        if i % ctx.nshards != ctx.shard:
            continue
        ctx.count("evaluations")
        ctx.count("small-exhaustive:cases")
        check_tree(ctx, {"text": t, "pre": []})
    ctx.info["small_expressions_exhaustive"] = f"{len(small)} expressions with <= {2 if ctx.tier == 'quick' else 3} binary operators over leaves x y 2 -1 0 0.5"
    hyp_run(ctx, "g-tree", G.tree_case(12 if ctx.tier == "quick" else 24), check_tree, ctx.n(4000, 20000))
    for i, t in enumerate(HUGE_TEXTS):
        if i % ctx.nshards == ctx.shard:
            ctx.count("evaluations")
            check_huge(ctx, {"text": t, "huge": True})
    # in-place sequences with long-lived rule objects (deterministic starts from the template sweep, then drawn ones)
    istep = 8 if ctx.tier == "quick" else 1
    for i, t in enumerate(texts):
        if i % istep != ctx.seed % istep or (i // istep) % ctx.nshards != ctx.shard:
            continue
        ctx.count("evaluations")
        check_inplace(ctx, {"text": t, "steps": [[(i + 3 * k) % 11, i + k] for k in range(5)]})
    from hypothesis import strategies as st

    walk = st.builds(lambda t, steps: {"text": t, "steps": steps}, G.tree_text(12), st.lists(st.tuples(st.integers(0, 10), st.integers(0, 40)).map(list), min_size=2, max_size=6))
    hyp_run(ctx, "in-place", walk, check_inplace, ctx.n(600, 5000))
