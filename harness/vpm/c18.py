"""C18 — tree layout satisfies the tidy-tree invariants and is repeatable."""

from hypothesis import strategies as st

from . import shapes as S
from .runner import hyp_run

PROP = "C18"
LEVEL = "exploration"
RULE = (
    "exhaustive: every shape with <= 8 (quick) / 10 (thorough) nodes and every full shape (0 or 2 children) with <= 17 / 21 nodes, each laid out with "
    "unit multipliers (1,1) and one other pair from {0.5,1,2,3}^2, laid out a second and third time on the same nodes, on "
    "a fresh tree, and mirrored; plus a deterministic family of 133 956 uneven-depth shapes (chains, zigzags, small bushy trees composed twice, to 31 nodes; every 2nd per quick run) and Hypothesis-drawn shapes to 60 (quick) / 200 (thorough) nodes (general and full); oracle clauses: (a) y == "
    "depth*unit_y, (b) left child strictly left / right child strictly right, (c) two-child parent centred, (d) nodes of a "
    "level in tree order >= unit_x apart, (e) reported bounds == bounding box, width/height/centre consistent, (f) same "
    "coordinates on a fresh tree and on repeated layout, x scales with unit_x, (g) mirrored shape gives mirrored x; "
    "non-trivial = >= 4 nodes; distinct by (shape, multipliers)"
)
ASSUMPTIONS = [
    "the layout is specified for trees with consistent parent/child links and no shared nodes; coordinates are compared exactly (all offsets are "
    "multiples of 1/2 times small integers, exact in binary64, for the sizes generated)",
]
UNITS = [0.5, 1.0, 2.0, 3.0]


def make_plain():
    from mathy_core.tree import BinaryTreeNode

    return lambda kind: BinaryTreeNode()


def coords(nodes):
    return [(n.x, n.y) for n in nodes]


def depths(shape):
    out = []

    def rec(s, d):
        if s is None:
            return
        out.append(d)
        rec(s[0], d + 1)
        rec(s[1], d + 1)

    rec(shape, 0)
    return out


def clause_violations(shape_text, ux, uy):
    """Lay the shape out and evaluate every clause. Returns (set of violated clause names, info)."""
    from mathy_core.layout import TreeLayout

    shape = S.from_text(shape_text)
    root, nodes = S.build(shape, make_plain())
    bad = set()
    info = {}
    try:
        m = TreeLayout().layout(root, ux, uy)
    except Exception as e:
        return {"raised"}, {"error": repr(e)[:200]}
    c1 = coords(nodes)
    ds = depths(shape)
    # (a)
    if any(y != d * uy for (_, y), d in zip(c1, ds)):
        bad.add("a")
    # (b) (c)
    for n in nodes:
        if n.left is not None and not n.left.x < n.x:
            bad.add("b")
        if n.right is not None and not n.right.x > n.x:
            bad.add("b")
        if n.left is not None and n.right is not None and n.x != (n.left.x + n.right.x) / 2:
            bad.add("c")
    # (d) level order: nodes of one level in left-to-right tree order
    levels = {}
    for node, d in S.naive(root, "inorder"):
        levels.setdefault(d, []).append(node)
    for d, row in levels.items():
        for p, q in zip(row, row[1:]):
            if not q.x - p.x >= ux:
                bad.add("d")
    # (e)
    xs = [x for x, _ in c1]
    ys = [y for _, y in c1]
    if (m.minX, m.maxX, m.minY, m.maxY) != (min(xs), max(xs), min(ys), max(ys)):
        bad.add("e")
        info["bounds"] = [m.minX, m.maxX, m.minY, m.maxY]
    elif m.width != max(xs) - min(xs) or m.height != max(ys) - min(ys) or m.centerX != min(xs) + (max(xs) - min(xs)) / 2 or m.centerY != min(ys) + (max(ys) - min(ys)) / 2:
        bad.add("e")
    # (f) repeat on the same nodes (twice), after other multipliers, and on a fresh tree
    try:
        TreeLayout().layout(root, ux, uy)
        c2 = coords(nodes)
        TreeLayout().layout(root, 3.0 if ux != 3.0 else 2.0, 0.5 if uy != 0.5 else 2.0)
        TreeLayout().layout(root, ux, uy)
        c3 = coords(nodes)
        if c2 != c1 or c3 != c1:
            bad.add("f-repeat")
    except Exception as e:
        bad.add("f-repeat")
        info["repeat_error"] = repr(e)[:200]
    root2, nodes2 = S.build(shape, make_plain())
    TreeLayout().layout(root2, ux, uy)
    if coords(nodes2) != c1:
        bad.add("f-fresh")
    if (ux, uy) != (1.0, 1.0):
        root3, nodes3 = S.build(shape, make_plain())
        TreeLayout().layout(root3, 1.0, 1.0)
        if [(x * ux, y * uy) for x, y in coords(nodes3)] != c1:
            bad.add("f-units")
    # (g) mirror
    mshape = S.mirror(shape)
    rootm, nodesm = S.build(mshape, make_plain())
    TreeLayout().layout(rootm, ux, uy)
    # map nodes: preorder of mirrored tree visits (node, mirrored right, mirrored left); compare by path
    pos = {}

    def paths(n, p, acc):
        if n is None:
            return
        acc[p] = (n.x, n.y)
        paths(n.left, p + "L", acc)
        paths(n.right, p + "R", acc)

    pa, pm = {}, {}
    paths(root, "", pa)
    paths(rootm, "", pm)
    flip = str.maketrans("LR", "RL")
    for p, (x, y) in pa.items():
        xm, ym = pm[p.translate(flip)]
        if xm != -x or ym != y:
            bad.add("g")
            break
    # (e') a sub-tree handed to layout() is a tree too: bounds must be its own bounding box, y relative to it
    rootS, nodesS = S.build(shape, make_plain())
    for sub in (rootS.left, rootS.right):
        if sub is None:
            continue
        try:
            ms = TreeLayout().layout(sub, ux, uy)
        except Exception as e:
            bad.add("e-subtree")
            info["subtree_error"] = repr(e)[:200]
            continue
        pts = [(n.x, n.y) for n, _ in S.naive(sub, "preorder")]
        xs2, ys2 = [p[0] for p in pts], [p[1] for p in pts]
        if (ms.minX, ms.maxX, ms.minY, ms.maxY) != (min(xs2), max(xs2), min(ys2), max(ys2)) or ms.width != max(xs2) - min(xs2) or ms.height != max(ys2) - min(ys2) or ms.centerX != min(xs2) + (max(xs2) - min(xs2)) / 2 or ms.centerY != min(ys2) + (max(ys2) - min(ys2)) / 2:
            bad.add("e-subtree")
        if any(y != d * uy for (_, y), (_, d) in zip(pts, S.naive(sub, "preorder"))):
            bad.add("a-subtree")
    info["coords"] = c1[:12]
    return bad, info


def check_shape(ctx, case):
    text = case["shape"]
    ux, uy = case.get("ux", 1.0), case.get("uy", 1.0)
    shape = S.from_text(text)
    n = S.size(shape)
    bad, info = clause_violations(text, ux, uy)
    ctx.count("layouts")
    if n >= 4:
        ctx.nontriv((text, ux, uy))
    ctx.sample({"shape": text, "ux": ux, "uy": uy, "coords": info.get("coords")}, cap=6)
    for c in sorted(bad):
        ctx.fail(("clause", c), case, {"violated": sorted(bad), "nodes": n, **{k: v for k, v in info.items() if k != "coords"}})
    if not bad:
        ctx.count("shapes_all_clauses_hold")


def replay(ctx, case):
    check_shape(ctx, case)


def enumerated_shapes(thorough=False):
    out = []
    for n in range(1, 11 if thorough else 9):
        out.extend(S.shapes_exact(n))
    for n in range(11 if thorough else 9, 22 if thorough else 18, 2):
        out.extend(S.full_shapes_exact(n))
    return out


def run(ctx):
    shapes = enumerated_shapes(ctx.tier == "thorough")
    for i, sh in enumerate(shapes):
        if i % ctx.nshards != ctx.shard:
            continue
        text = S.to_text(sh)
        ctx.count("evaluations")
        check_shape(ctx, {"shape": text, "ux": 1.0, "uy": 1.0})
        ctx.count("evaluations")
        check_shape(ctx, {"shape": text, "ux": UNITS[i % 4], "uy": UNITS[(i // 4 + 1) % 4]})
    ctx.info["exhaustive"] = True
    ctx.info["exhaustive_bound"] = f"all shapes <= {10 if ctx.tier == 'thorough' else 8} nodes and all full shapes <= {21 if ctx.tier == 'thorough' else 17} nodes ({len(shapes)} shapes), two multiplier pairs each"
    # uneven-depth family: chains, zigzags and small bushy trees composed twice (to 31 nodes) - where contours of very
    # different depth meet; every 2nd shape per quick run (offset by the seed), all of them in the thorough tier
    comp = S.composed_shapes()
    cstep = 2 if ctx.tier == "quick" else 1
    for i, sh in enumerate(comp):
        if i % cstep != ctx.seed % cstep or (i // cstep) % ctx.nshards != ctx.shard:
            continue
        ctx.count("evaluations")
        ctx.count("composed:shapes")
        check_shape(ctx, {"shape": S.to_text(sh), "ux": UNITS[i % 4], "uy": UNITS[(i // 4) % 4]})
    ctx.info["composed_family"] = f"{len(comp)} shapes composed from chains, zigzags and small bushy trees (<= 31 nodes); every {cstep}th checked in this tier"
    units = st.sampled_from(UNITS)
    big = 60 if ctx.tier == "quick" else 200
    rnd = st.builds(lambda s, a, b: {"shape": s, "ux": a, "uy": b}, st.one_of(S.shape_strategy(big, 9), S.shape_strategy(big - 1, 19, full=True)), units, units)
    hyp_run(ctx, "random-shapes", rnd, check_shape, ctx.n(1500, 10000))
