"""C02 — rewrites preserve the solution set of equations."""
from fractions import Fraction

from hypothesis import strategies as st

from . import audit as A
from . import engine as E
from . import equiv as Q
from . import exact as X
from . import gen as G
from . import refparse as RP
from .runner import hyp_run

PROP = "C02"
LEVEL = "exploration"
EVALUATION_COUNTER = "applications"
RULE = (
    "equations from four families - planted-solution equations (literal k = L(a*) - R0(a*) added to one side, so "
    "a* is a true solution by construction), balanced-move templates with the moved addend/coefficient inside "
    "products, quotients, powers, negations and subtrahends, general G-tree equations, degenerate coefficients "
    "(0x = k) - each with 0-3 pre-rewrites, x all 11 rule instances x every applicable node; oracle: the result is an "
    "equation, introduces no division by a zero constant, holds at every TRUE solution of the original (planted, or "
    "computed exactly by solving along each variable in which the residual L-R is affine), every solution computed "
    "for the rewritten equation satisfies the original, and points where the original is false stay false; "
    "non-trivial = at least one true solution was available and the result differs; distinct by (text, pre, rule, index)"
)
ASSUMPTIONS = [
    "NaN/inf constants are outside the domain",
    "truth is decided exactly; when the rule created possibly-rounded constants the allowed residual is 16 ulp x perturbation sensitivity",
    "points where either equation is undefined, or where float powers make evaluation inexact, are skipped and counted",
]

SOL_VALUES = [Fraction(1), Fraction(2), Fraction(3), Fraction(-1), Fraction(-2), Fraction(5), Fraction(1, 2), Fraction(-3, 2), Fraction(4), Fraction(0)]


def literal_of(k):
    """Decimal literal text for an exactly representable rational, else None."""
    d = k.denominator
    if d & (d - 1) or d > 1024 or abs(k) > 10**9:
        return None
    if d == 1:
        return str(k.numerator)
    s = repr(float(k))
    return s if "e" not in s else None


@st.composite
def planted_equation(draw):
    side = st.one_of(G.expr_text(8, equation=False), G.template_text(["DF", "DM", "RS", "VM", "AG", "MI", "CA"]).filter(lambda s: "=" not in s))
    L = draw(side)
    R0 = draw(st.one_of(side, G.num_text(), G.term_text()))
    astar = {v: draw(st.sampled_from(SOL_VALUES)) for v in G.VARS}
    try:
        vl = X.eval_ast(RP.parse(L), astar)
        vr = X.eval_ast(RP.parse(R0), astar)
    except (RP.Reject, X.Undefined, X.NonFinite, KeyError, OverflowError, ZeroDivisionError, RecursionError):
        return {"text": f"{L} = {R0}", "pre": [], "family": "planted-failed"}
    if isinstance(vl, tuple) or isinstance(vr, tuple):
        return {"text": f"{L} = {R0}", "pre": [], "family": "planted-failed"}
    form = draw(st.integers(0, 3))
    k = vl - vr
    kt = literal_of(k)
    nkt = literal_of(-k)
    if kt is None or nkt is None:
        return {"text": f"{L} = {R0}", "pre": [], "family": "planted-unrepresentable"}
    if form == 0:
        text = f"{L} = {R0} + {kt}"
    elif form == 1:
        text = f"{L} = {kt} + {R0}" if not R0.startswith("-") else f"{L} = {kt} + ({R0})"
    elif form == 2:
        text = f"{L} + {nkt} = {R0}"
    else:
        text = f"{nkt} + {L} = {R0}" if not L.startswith("-") else f"{nkt} + ({L}) = {R0}"
    pre = draw(st.lists(st.tuples(st.integers(0, 10), st.integers(0, 30)), max_size=3))
    return {"text": text, "pre": [list(p) for p in pre], "family": "planted", "planted": {v: str(x) for v, x in astar.items()}}


def equation_case():
    pre = st.lists(st.tuples(st.integers(0, 10), st.integers(0, 30)), max_size=3).map(lambda ps: [list(p) for p in ps])
    tmpl = st.builds(lambda t, p: {"text": t, "pre": p, "family": "bm-template"}, G.template_text(["BM"]), pre)
    general = st.builds(lambda t, p: {"text": t, "pre": p, "family": "general"}, G.expr_text(12, equation=True), pre)
    degenerate = st.builds(
        lambda c, v, k, p: {"text": f"{c}{v} = {k}", "pre": p, "family": "degenerate"},
        st.sampled_from(["0", "0", "0.0", "1", "-1", "0 * ", "2 * 0 * "]), G.var3, st.sampled_from(["0", "1", "0.0", "3", "x", "0y"]), pre,
    )
    return st.one_of(planted_equation(), planted_equation(), tmpl, tmpl, general, degenerate)


def check_equation(ctx, case):
    root = E.build_tree(ctx, case)
    if root is None:
        return
    if not Q.is_equation(root):
        ctx.count("not-an-equation-after-pre")
        return
    fam = case.get("family", "replay")
    ctx.count("equations")
    ctx.count("family:" + fam)
    nodes = A.inorder(root)
    text = E.text_of(root)
    planted = None
    if case.get("planted"):
        planted = {v: Fraction(x) for v, x in case["planted"].items()}
        try:
            b, rb = Q.residual(root, {v: planted.get(v, Fraction(1)) for v in A.variables(root)})
        except X.NonFinite:
            return
        if b is None or b != 0:
            ctx.count("planted-not-a-solution-after-pre")
            planted = None
    sampled = False
    src_sig = A.sig(root)
    for name, rule in E.rules():
        for idx, n in enumerate(nodes):
            try:
                if not rule.can_apply_to(n):
                    continue
            except Exception:
                ctx.count("skipped:can_apply-raised(C06)")
                continue
            status, res, det, info = apply_and_judge(ctx, case, name, rule, root, n, idx, text, planted)
            if status == "fail":
                return
            if status == "ok" and info.get("solutions", 0) >= 1 and A.sig(res) != src_sig:
                ctx.nontriv((case["text"], repr(case.get("pre")), name, idx))
                ctx.count("nontrivial_applications")
                if not sampled:
                    d = {k: det[k] for k in ("tree", "rule", "arrangement", "node", "result")}
                    d["true_solution_points"] = info["solutions"]
                    ctx.sample(d)
                    sampled = True


def apply_and_judge(ctx, case, name, rule, root, n, idx, text, planted, extra=None):
    """Apply `rule` at `n` (on the copy clone_from_root gives) and judge the solution set of the result against `root`.
    Returns (status, result_root, detail, info) with status 'ok' | 'skipped' | 'fail' (reported)."""
    ap = E.apply(rule, n)
    ctx.count("applications")
    ctx.count(f"applied:{name}:{ap.arrangement}")
    if ap.error is not None or ap.result_root is None:
        ctx.count("skipped:apply-raised(C06)")
        return "skipped", None, None, None
    res = ap.result_root
    if A.audit(res) is not None:
        ctx.count("skipped:malformed-result(C07)")
        return "skipped", None, None, None
    if X.has_nonfinite(res):
        ctx.count("excluded_nonfinite")
        return "skipped", None, None, None
    if E.has_huge_constant(res):
        ctx.count("excluded_huge_constant")
        return "skipped", None, None, None
    det = {"tree": text, "rule": name, "arrangement": ap.arrangement, "node": E.text_of(n), "index": idx, "result": E.text_of(res)}
    if extra:
        det.update(extra)
    vs = A.variables(root) | A.variables(res)
    assigns = G.assignments(vs, 6)
    try:
        verdict, info = Q.compare_equations(ctx, root, res, ap.fresh_consts, assigns, planted, balanced_move=(name == "BM"))
    except X.Malformed:
        ctx.count("skipped:unevaluable-structure")
        return "skipped", None, None, None
    if verdict != "ok":
        det.update(info)
        ctx.fail((name, ap.arrangement, verdict), case, det)
        return "fail", res, det, info
    return "ok", res, det, info


def check_chain(ctx, case):
    """Two balanced moves in a row with ONE long-lived rule object that is also asked for find_nodes before each move (what
    a search agent does): every move, first and second, must keep the solution set - whatever the object remembers about
    nodes or ids of the earlier state (clone_from_root keeps ids) must not matter."""
    root = E.parse(case["text"])
    if root is None or not Q.is_equation(root) or X.has_nonfinite(root) or E.has_huge_constant(root):
        return
    bm = dict(E.rule_instances())["BM"]
    ctx.count("chains")
    try:
        first = list(bm.find_nodes(root))
    except Exception:
        return
    for n in first[:6]:
        idx = [id(x) for x in A.inorder(root)].index(id(n))
        status, res, det, info = apply_and_judge(ctx, case, "BM", bm, root, n, idx, E.text_of(root), None, {"chain_step": 1})
        if status == "fail":
            return
        if status != "ok" or not Q.is_equation(res):
            continue
        try:
            second = list(bm.find_nodes(res))
        except Exception:
            continue
        for m in second[:6]:
            idx2 = [id(x) for x in A.inorder(res)].index(id(m))
            st2, res2, det2, info2 = apply_and_judge(ctx, case, "BM", bm, res, m, idx2, E.text_of(res), None, {"chain_step": 2, "first_move": det["node"], "start": E.text_of(root)})
            if st2 == "fail":
                return
            if st2 == "ok" and info2.get("solutions", 0) >= 1:
                ctx.nontriv(("chain", case["text"], idx, idx2))


def replay(ctx, case):
    if case.get("chain"):
        return check_chain(ctx, case)
    check_equation(ctx, case)


def run(ctx):
    # deterministic sweep: every rule template x every coefficient coincidence (root and nested position)
    texts = G.sweep_texts(["BM"])
    for i, t in enumerate(texts):
        if i % ctx.nshards != ctx.shard:
            continue
        ctx.count("evaluations")
        ctx.count("sweep:cases")
        check_equation(ctx, {"text": t, "pre": [], "family": "sweep"})
    ctx.info["template_sweep_size"] = len(texts)
    # one edit away from every equation template (operator, leaf kind, operand order): near-miss shapes
    near = [t for t in G.neighbour_texts(["BM"]) if "=" in t]
    for i, t in enumerate(near):
        if i % ctx.nshards != ctx.shard:
            continue
        ctx.count("evaluations")
        ctx.count("near-miss:cases")
        check_equation(ctx, {"text": t, "pre": [], "family": "near-miss"})
    ctx.info["near_miss_sweep_size"] = f"{len(near)} equations one edit away from a balanced-move template"
    # two balanced moves in a row with one long-lived rule object, from every equation of the template sweep and its neighbours
    chain_texts = texts + near
    cstep = 3 if ctx.tier == "quick" else 1
    for i, t in enumerate(chain_texts):
        if i % cstep != ctx.seed % cstep or (i // cstep) % ctx.nshards != ctx.shard:
            continue
        ctx.count("evaluations")
        check_chain(ctx, {"text": t, "chain": True})
    hyp_run(ctx, "equations", equation_case(), check_equation, ctx.n(1500, 10000))
    hyp_run(ctx, "chains", G.template_text(["BM"]).map(lambda t: {"text": t, "chain": True}), check_chain, ctx.n(400, 3000))
