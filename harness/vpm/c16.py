"""C16 — term analysis is order-invariant and inverse to term construction."""
from fractions import Fraction

from hypothesis import strategies as st

from . import audit as A
from . import engine as E
from . import exact as X
from . import gen as G
from .runner import hyp_run

PROP = "C16"
LEVEL = "exploration"
RULE = (
    "six sub-checks: (1) has_like_terms on t1+...+tn (2-6 drawn terms: natural terms, constants, products, negated terms, "
    "quotients) vs a drawn permutation and re-parenthesisation - answers must agree (metamorphic); (2) terms_are_like "
    "reflexive and symmetric over the term nodes get_terms returns and over whole single-term expressions; (3) "
    "get_term_ex(parse('[c][v][^e]' | '-v' | '-v^e')) == the written triple, value and int/float kind; (4) make_term(c,v,e) "
    "has exact value c*v^e at 4 points and get_term_ex gives the triple back (coefficient 1 == absent); (5) factor(n) for "
    "EVERY 1<=n<=5000 (200000 thorough): keys == divisors, k*f[k]==n; (6) the seven term functions never raise on any node "
    "of non-equation G-trees with finite constants; non-trivial: (1) sums with a like pair or >=3 terms, (3,4) triples with "
    ">=2 components, (5) composite n, (6) trees with >= 3 nodes; distinct by input"
)
ASSUMPTIONS = [
    "terms_are_like is exercised on term nodes as get_terms returns them and on whole single-term expressions, not on arbitrary nodes",
    "make_term is exercised with a variable whenever an exponent is given (an exponent without a variable has no documented meaning)",
]

coef = st.one_of(st.integers(-12, 12), st.sampled_from([0.5, 1.5, 2.5, -0.5, 0.25, 0.1, 2.7, -3.3, 100, 1.0, 2.0]))
expo = st.one_of(st.integers(-3, 6), st.sampled_from([0.5, 1.5, -0.5, 2.0, 0, 1]))


def num_text(v):
    if isinstance(v, int):
        return str(v)
    r = repr(v)
    return r


# ---------------------------------------------------------------- (1) order/grouping invariance
term_piece = st.one_of(
    G.term_text(),
    G.term_text(),
    G.num_text(),
    st.builds(lambda a, b: f"{a} * {b}", G.term_text(), G.var3),
    st.builds(lambda a, b: f"{a} * {b}", G.var3, G.var3),
    st.builds(lambda a: f"-{a}", G.var3),
    st.builds(lambda a, b: f"{a} / {b}", G.term_text(), st.sampled_from(["2", "y", "3x"])),
    st.builds(lambda a, b, c: f"{a}{b} * {c}", st.integers(2, 9), G.var3, G.term_text()),
    st.builds(lambda a: f"({a})^2", G.var3),
    st.builds(lambda a, b: f"{a}{b}{c}" if False else f"{a}{b}", st.integers(2, 9), st.sampled_from(["xy", "yz", "xz", "yx"])),
    # addends the term analysis cannot decompose (several powers, non-constant exponents, factors with a sum inside,
    # functions): their presence or position must not change the answer about the others
    st.sampled_from(["x^2 * y^3", "(x^2)^3", "x^y", "2 * (x + 1)", "(x + 1) * 2", "sgn(x)", "3!", "x^(y + 1)", "(x + 1)^2", "2^x", "x^2 * y^3 * z", "(2x)^2", "x / (y + 1)", "-(x + 1)", "x^-y"]),
)


def group(terms, splits):
    """Parenthesise a list of term texts according to a list of split choices."""
    if len(terms) == 1:
        return terms[0]
    k = (splits[0] % (len(terms) - 1)) + 1 if splits else 1
    l = group(terms[:k], splits[1:])
    r = group(terms[k:], splits[2:])
    lt = f"({l})" if k > 1 else l
    rt = f"({r})" if len(terms) - k > 1 else r
    return f"{lt} + {rt}"


def group_signed(items, splits):
    """items: list of (sign, term text) with items[0] positive. Parenthesise according to splits, distributing
    a minus over a parenthesised group: a - (b + c) stands for a - b - c, a - (b - c) for a - b + c."""
    if len(items) == 1:
        return items[0][1]
    k = (splits[0] % (len(items) - 1)) + 1 if splits else len(items) - 1
    left, right = items[:k], items[k:]
    sign = right[0][0]
    if sign == "-":
        right = [("+" if s == "-" else "-", t) for s, t in right]
    right = [("+", right[0][1])] + right[1:]
    l = group_signed(left, splits[1:]) if len(left) > 1 else left[0][1]
    lt = f"({l})" if len(left) > 1 and splits and splits[0] % 2 else l
    if len(right) == 1:
        rt = right[0][1]
    else:
        rt = "(" + group_signed(right, splits[2:]) + ")"
    return f"{lt} {sign} {rt}"


def flat_signed(items):
    out = items[0][1]
    for s, t in items[1:]:
        out += f" {s} {t}"
    return out


def paren_if_needed(t):
    return f"({t})" if t.startswith("-") else t


def sum_case():
    return st.lists(term_piece, min_size=2, max_size=6).flatmap(
        lambda ts: st.tuples(st.permutations(list(range(len(ts)))), st.lists(st.integers(0, 5), max_size=6), st.lists(st.integers(0, 5), max_size=6)).map(
            lambda pq: {"sub": "order", "terms": ts, "perm": list(pq[0]), "g1": pq[1], "g2": pq[2]}
        )
    ).flatmap(lambda c: st.one_of(st.just(c), st.just(c), st.lists(st.sampled_from(["+", "-", "-"]), min_size=len(c["terms"]) - 1, max_size=len(c["terms"]) - 1).map(lambda sg: {**c, "signs": sg})))


def check_order(ctx, case):
    from mathy_core import util as U

    ts = [paren_if_needed(t) for t in case["terms"]]
    if case.get("signs"):
        # sums with subtractions: same signed terms, same order, different grouping
        items = [("+", ts[0])] + [(sg, t) for sg, t in zip(case["signs"], ts[1:])]
        a = flat_signed(items)
        b = group_signed(items, case["g2"] or [0])
    else:
        a = group(ts, case["g1"])
        b = group([ts[i] for i in case["perm"]], case["g2"])
    ta, tb = E.parse(a), E.parse(b)
    if ta is None or tb is None:
        ctx.count("order:rejected-text")
        return
    try:
        ra, rb = U.has_like_terms(ta), U.has_like_terms(tb)
    except Exception as e:
        return ctx.fail(("has_like_terms-raised",) + E.exc_site(e), case, {"a": a, "b": b, "error": repr(e)[:200]})
    ctx.count("order:pairs")
    if ra != rb:
        return ctx.fail(("has_like_terms-order-dependent",), case, {"a": a, "answer_a": ra, "b": b, "answer_b": rb})
    if ra or len(ts) >= 3:
        ctx.nontriv(("order", a, b))
    ctx.sample({"sub": "order", "a": a, "b": b, "has_like_terms": ra}, cap=4)
    # (2) reflexive / symmetric on the term nodes of a
    terms = U.get_terms(ta)
    singles = [E.parse(t) for t in case["terms"][:3]]
    items = list(terms[:5]) + [s for s in singles if s is not None and not A.kind(s) in ("AddExpression", "SubtractExpression")]
    for x in items:
        for y in items:
            try:
                xy, yx = U.terms_are_like(x, y), U.terms_are_like(y, x)
            except Exception as e:
                return ctx.fail(("terms_are_like-raised",) + E.exc_site(e), case, {"x": E.text_of(x), "y": E.text_of(y), "error": repr(e)[:200]})
            ctx.count("like:pairs")
            if xy != yx:
                return ctx.fail(("terms_are_like-asymmetric",), case, {"x": E.text_of(x), "y": E.text_of(y), "xy": xy, "yx": yx})
        if U.get_term(x) is not False and not U.terms_are_like(x, x):
            return ctx.fail(("terms_are_like-irreflexive",), case, {"x": E.text_of(x)})


# ---------------------------------------------------------------- (3)(4) triples
def triple_case():
    return st.builds(
        lambda c, v, e, form: {"sub": "triple", "c": c, "v": v, "e": e, "form": form},
        st.one_of(st.none(), coef), st.one_of(st.none(), G.var_any), st.one_of(st.none(), expo), st.integers(0, 3),
    )


def same_number(a, b):
    if a is None or b is None:
        return a is None and b is None
    pa = a.item() if hasattr(a, "item") and hasattr(a, "dtype") else a
    pb = b.item() if hasattr(b, "item") and hasattr(b, "dtype") else b
    return pa == pb and isinstance(pa, float) == isinstance(pb, float)


def check_triple(ctx, case):
    from mathy_core import util as U

    c, v, e = case["c"], case["v"], case["e"]
    if v is None:
        e = None
    if c is None and v is None:
        return
    ncomp = sum(x is not None for x in (c, v, e))
    # (3) extraction from natural text
    if case["form"] in (0, 1):
        text = (num_text(c) if c is not None else "") + (v or "") + ("^" + num_text(e) if e is not None else "")
        want = (c, v, e)
        if case["form"] == 1 and c is None:
            text = "-" + text
            want = (-1, v, e)
        root = E.parse(text)
        if root is None:
            ctx.count("triple:rejected-text")
        else:
            try:
                got = U.get_term_ex(root)
            except Exception as ex:
                return ctx.fail(("get_term_ex-raised",) + E.exc_site(ex), case, {"text": text, "error": repr(ex)[:200]})
            ctx.count("extract:checks")
            ok = got is not None and same_number(got.coefficient, want[0]) and got.variable == want[1] and same_number(got.exponent, want[2])
            if not ok:
                return ctx.fail(("get_term_ex-wrong",), case, {"text": text, "want": repr(want), "got": repr(got)})
            if ncomp >= 2:
                ctx.nontriv(("extract", text))
            ctx.sample({"sub": "extract", "text": text, "term": repr(tuple(got))}, cap=3)
    # (4) construction
    else:
        cc = 1 if c is None else c
        try:
            # an absent coefficient is passed as absent (the default must behave as 1)
            node = U.make_term(variable=v, exponent=e) if c is None else U.make_term(cc, v, e)
        except Exception as ex:
            return ctx.fail(("make_term-raised",) + E.exc_site(ex), case, {"error": repr(ex)[:200]})
        ctx.count("construct:checks")
        aud = A.audit(node)
        if aud is not None:
            return ctx.fail(("make_term-malformed",), case, {"audit": aud, "built": E.text_of(node)})
        det = {"args": repr((cc, v, e)), "built": E.text_of(node)}
        for val in (Fraction(2), Fraction(3, 2), Fraction(5), Fraction(7, 3)) + ((Fraction(-2), Fraction(-1, 2)) if e is None or isinstance(e, int) else ()):
            try:
                r = X.try_eval(node, {v: val} if v else {})
            except (X.NonFinite, X.Malformed) as ex:
                return ctx.fail(("make_term-unevaluable",), case, det)
            st_ = X.State({})
            try:
                want = X.const_value(cc) * (X._pow(val, X.const_value(e), st_) if e is not None else (val if v else 1))
            except X.Undefined:
                want = None
            if (r is None) != (want is None):
                det.update(at=str(val), got=None if r is None else str(r.value), want=None if want is None else str(want))
                return ctx.fail(("make_term-value",), case, det)
            if r is None:
                continue
            if r.value != want and not ((r.inexact or st_.inexact) and abs(r.value - want) <= abs(want) / 10**9):
                det.update(at=str(val), got=str(r.value), want=str(want))
                return ctx.fail(("make_term-value",), case, det)
        try:
            got = U.get_term_ex(node)
        except Exception as ex:
            return ctx.fail(("get_term_ex-raised",) + E.exc_site(ex), case, det)
        wc = None if cc == 1 and v is not None else cc
        ok = got is not None and (same_number(got.coefficient, wc) or (wc is None and got.coefficient == 1) or (got.coefficient is None and wc == 1)) and got.variable == v and same_number(got.exponent, e)
        if not ok:
            det.update(want=repr((wc, v, e)), got=repr(got))
            return ctx.fail(("make_term-roundtrip",), case, det)
        if ncomp >= 2:
            ctx.nontriv(("construct", repr((cc, v, e))))
        ctx.sample({"sub": "construct", "args": repr((cc, v, e)), "built": E.text_of(node)}, cap=3)


# ---------------------------------------------------------------- (5) factor
def check_factor(ctx, n):
    from mathy_core import util as U

    try:
        f = U.factor(n)
    except Exception as ex:
        return ctx.fail(("factor-raised",), {"sub": "factor", "n": n}, {"error": repr(ex)[:200]})
    divs = {d for d in range(1, int(n**0.5) + 1) if n % d == 0}
    divs |= {n // d for d in divs}
    keys = set(f.keys())
    if keys != divs:
        return ctx.fail(("factor-keys",), {"sub": "factor", "n": n}, {"extra": sorted(keys - divs)[:8], "missing": sorted(divs - keys)[:8]})
    for k, v in f.items():
        if k * v != n:
            return ctx.fail(("factor-pairs",), {"sub": "factor", "n": n}, {"k": repr(k), "v": repr(v)})
    if len(divs) > 2:
        ctx.nontriv(("factor", n))


# ---------------------------------------------------------------- (6) never raise
FUNCS = ["has_like_terms", "get_terms", "get_term", "get_term_ex", "get_sub_terms", "is_simple_term", "is_preferred_term_form"]


def check_total(ctx, case):
    from mathy_core import util as U

    root = E.build_tree(ctx, case)
    if root is None or A.kind(root) == "EqualExpression":
        return
    if any(A.kind(n) == "EqualExpression" for n in A.preorder(root)):
        return
    nodes = A.inorder(root)
    ctx.count("total:trees")
    if len(nodes) >= 3:
        ctx.nontriv(("total", case["text"], repr(case.get("pre"))))
    before = A.idsig(root)
    for fn in FUNCS:
        f = getattr(U, fn)
        for n in nodes:
            try:
                f(n)
            except Exception as ex:
                return ctx.fail((fn + "-raised",) + E.exc_site(ex), case, {"tree": E.text_of(root), "node": E.text_of(n), "error": repr(ex)[:200]})
            ctx.count("total:calls")
    for n in nodes[:4]:
        for m in nodes[:4]:
            try:
                U.terms_are_like(n, m)
            except Exception as ex:
                return ctx.fail(("terms_are_like-raised",) + E.exc_site(ex), case, {"tree": E.text_of(root), "x": E.text_of(n), "y": E.text_of(m), "error": repr(ex)[:200]})
    if A.idsig(root) != before:
        return ctx.fail(("term-function-mutates-tree",), case, {"tree": E.text_of(root)})
    ctx.sample({"sub": "total", "tree": E.text_of(root)}, cap=3)


def dispatch(ctx, case):
    sub = case.get("sub")
    if sub == "order":
        return check_order(ctx, case)
    if sub == "triple":
        return check_triple(ctx, case)
    if sub == "factor":
        return check_factor(ctx, case["n"])
    return check_total(ctx, case)


def replay(ctx, case):
    dispatch(ctx, case)


def run(ctx):
    top = 5000 if ctx.tier == "quick" else 200000
    for n in range(1 + ctx.shard, top + 1, ctx.nshards):
        ctx.count("evaluations")
        ctx.count("factor:n")
        check_factor(ctx, n)
    ctx.info["factor_exhaustive_upto"] = top
    # totality on deterministic corners: every small expression, every rule template x coefficient coincidence and every
    # text one edit away from a template (near-terms: a term with one wrong operator or leaf kind)
    texts = [t for t in G.small_expressions(2 if ctx.tier == "quick" else 3) + G.sweep_texts() + G.neighbour_texts() if "=" not in t]
    step = 3 if ctx.tier == "quick" else 1
    for i, t in enumerate(texts):
        if i % step != ctx.seed % step or (i // step) % ctx.nshards != ctx.shard:
            continue
        ctx.count("evaluations")
        ctx.count("total-sweep:cases")
        check_total(ctx, {"text": t, "pre": [], "sub": "total"})
    ctx.info["totality_sweep"] = f"{len(texts)} non-equation texts (small expressions, template sweep, one-edit neighbours); every {step}th in this tier"
    hyp_run(ctx, "order", sum_case(), check_order, ctx.n(2500, 20000))
    hyp_run(ctx, "triples", triple_case(), check_triple, ctx.n(4000, 30000))
    hyp_run(ctx, "total", G.tree_case(12 if ctx.tier == "quick" else 20).map(lambda c: {**c, "sub": "total"}), check_total, ctx.n(1500, 10000))
