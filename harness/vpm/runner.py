"""Runner: tiers, seeds, sharding, rounds (one root cause per round), evidence, replay files,
known findings, VIOLATION / KNOWN-FINDING lines and exit codes (0 held, 1 violation, 2 harness error).
"""
import argparse
import collections
import importlib
import json
import multiprocessing
import os
import re
import sys
import time
import traceback
import zlib
import warnings

warnings.filterwarnings("ignore")
sys.set_int_max_str_digits(0)

ROOT = os.path.dirname(os.path.dirname(os.path.dirname(os.path.abspath(__file__))))  # /verif
MAX_ROUNDS = int(os.environ.get("VERIF_MAX_ROUNDS", "12"))  # one root-cause bucket per round; sensitivity tools set 1 (first violation is enough)
NSHARDS_THOROUGH = int(os.environ.get("VERIF_SHARDS", "16"))


class Violation(Exception):
    """Raised by Ctx.fail for a failure in the round's target bucket."""


class HarnessError(Exception):
    pass


def bucket_key(bucket):
    if isinstance(bucket, str):
        return bucket
    return "|".join(str(b) for b in bucket)


def jsonable(x, depth=0):
    if depth > 12:
        return repr(x)
    if isinstance(x, (str, int, bool)) or x is None:
        return x
    if isinstance(x, float):
        return x if x == x and abs(x) != float("inf") else repr(x)
    if isinstance(x, dict):
        return {str(k): jsonable(v, depth + 1) for k, v in x.items()}
    if isinstance(x, (list, tuple)):
        return [jsonable(v, depth + 1) for v in x]
    return repr(x)


class Finding:
    def __init__(self, rec, mod):
        self.id = rec["id"]
        self.property = rec["property"]
        self.summary = rec["summary"]
        self.reproducer = rec.get("reproducer")
        self.classifier_name = rec["classifier"]
        self.args = rec.get("args", {})
        fn = getattr(mod, "CLASSIFIERS", {}).get(self.classifier_name)
        if fn is None:
            raise HarnessError(f"finding {self.id}: unknown classifier {self.classifier_name}")
        self.fn = fn

    def matches(self, bucket, case, detail):
        return bool(self.fn(bucket, case, detail, self.args))


def load_findings(prop, mod):
    path = os.path.join(ROOT, "known_findings.json")
    if not os.path.exists(path):
        return []
    with open(path) as f:
        data = json.load(f)
    return [Finding(r, mod) for r in data.get("open", []) if r["property"] == prop]


class Ctx:
    """Per-round context handed to the property modules."""

    def __init__(self, prop, tier, seed, shard=0, nshards=1, excluded=(), findings=(), mode="search"):
        self.prop = prop
        self.tier = tier
        self.seed = seed
        self.shard = shard
        self.nshards = nshards
        self.excluded = set(excluded)
        self.findings = list(findings)
        self.mode = mode  # search | replay | probe
        self.counters = collections.Counter()
        self.nontrivial = set()
        self.samples = []
        self.target = None
        self.failure = None
        self.probe_failures = []
        self.known_hits = collections.Counter()
        self.other_buckets = collections.Counter()
        self.scale = float(os.environ.get("VERIF_SCALE", "1"))
        self.info = {}

    # ---- budgets / seeds
    def n(self, quick, thorough=None):
        """Number of examples for this tier (per shard)."""
        v = quick if self.tier == "quick" else (thorough if thorough is not None else quick * 4)
        return max(1, int(v * self.scale))

    def hseed(self, name):
        return zlib.crc32(f"{self.seed}:{self.shard}:{name}".encode()) & 0x7FFFFFFF

    @property
    def thorough(self):
        return self.tier == "thorough"

    # ---- measurement
    def count(self, key, n=1):
        self.counters[key] += n

    def nontriv(self, key):
        self.nontrivial.add(hash(key))

    def sample(self, obj, cap=10, group=None):
        """Keep a few actual cases for the evidence file (deterministic thinning, per group)."""
        if group is None and isinstance(obj, dict):
            group = obj.get("sub", "")
        group = group or ""
        k = self.counters["_samples_seen:" + group]
        self.counters["_samples_seen:" + group] += 1
        have = self.counters["_samples_kept:" + group]
        if have < cap and (k < 3 or (k & (k - 1)) == 0):
            self.counters["_samples_kept:" + group] += 1
            self.samples.append(jsonable(obj))

    # ---- failures
    def fail(self, bucket, case, detail=None):
        """Report a failing case. Returns normally when the failure is attributed to a known
        finding, to an already reported bucket, or to a bucket other than this round's target;
        raises Violation otherwise. Callers stop processing the case after calling this."""
        bk = bucket_key(bucket)
        for f in self.findings:
            if f.matches(bk, case, detail):
                self.known_hits[f.id] += 1
                if self.mode == "probe":
                    self.probe_failures.append((bk, f.id))
                return
        if self.mode == "probe":
            self.probe_failures.append((bk, None))
            return
        if bk in self.excluded:
            self.other_buckets[bk] += 1
            return
        if self.target is None:
            self.target = bk
        if bk != self.target:
            self.other_buckets[bk] += 1
            return
        self.failure = {"bucket": bk, "case": jsonable(case), "detail": jsonable(detail)}
        raise Violation(bk)


def hyp_settings(ctx, max_examples):
    from hypothesis import HealthCheck, Phase, settings
    import hypothesis.internal.conjecture.engine as eng

    eng.MAX_SHRINKING_SECONDS = 45 if ctx.tier == "quick" else 120
    return settings(
        max_examples=max_examples,
        database=None,
        deadline=None,
        report_multiple_bugs=False,
        derandomize=False,
        suppress_health_check=list(HealthCheck),
        phases=[Phase.generate, Phase.shrink],
        print_blob=False,
    )


class CaseTimeout(BaseException):
    """A single case exceeded the per-case wall-clock guard (inconclusive, never a violation)."""


def guarded(ctx, fn, case, seconds=None):
    """Run fn(ctx, case) under a per-case alarm: a case that does not return (e.g. the code under test asked to build an
    astronomically large integer) is abandoned and counted as inconclusive instead of hanging the whole check."""
    import signal

    seconds = seconds or int(os.environ.get("VERIF_CASE_TIMEOUT", "120"))

    def on_alarm(signum, frame):
        raise CaseTimeout()

    try:
        old = signal.signal(signal.SIGALRM, on_alarm)
    except ValueError:  # not in the main thread
        return fn(ctx, case)
    signal.alarm(seconds)
    try:
        return fn(ctx, case)
    except CaseTimeout:
        ctx.count("inconclusive:case-timeout")
        ctx.info.setdefault("case_timeouts", []).append(jsonable(case) if len(json.dumps(jsonable(case))) < 400 else "(large case)")
        return None
    finally:
        signal.alarm(0)
        signal.signal(signal.SIGALRM, old)


def hyp_run(ctx, name, strategy, fn, max_examples):
    """Drive fn(ctx, case) with cases drawn from `strategy` (cases are JSON-able)."""
    from hypothesis import given, seed

    @seed(ctx.hseed(name))
    @hyp_settings(ctx, max_examples)
    @given(strategy)
    def prop(case):
        ctx.count("evaluations")
        ctx.count("gen:" + name)
        guarded(ctx, fn, case)

    prop()


# --------------------------------------------------------------------------------------------
def load_module(prop):
    try:
        return importlib.import_module("vpm." + prop.lower())
    except ModuleNotFoundError as e:
        raise HarnessError(f"no module for {prop}: {e}")


def run_shard(args):
    prop, tier, seed, shard, nshards = args
    try:
        mod = load_module(prop)
        findings = load_findings(prop, mod)
        excluded = set()
        failures = []
        total_evals = 0
        ctx = None
        rounds = 0
        clean = False
        known_hits = collections.Counter()
        for rnd in range(MAX_ROUNDS):
            rounds += 1
            ctx = Ctx(prop, tier, seed, shard, nshards, excluded, findings)
            try:
                mod.run(ctx)
                clean = True
            except Violation:
                failures.append(ctx.failure)
                excluded.add(ctx.failure["bucket"])
            total_evals += ctx.counters["evaluations"]
            known_hits.update(ctx.known_hits)
            if clean:
                break
        return {
            "ok": True,
            "shard": shard,
            "counters": dict(ctx.counters),
            "nontrivial": ctx.nontrivial,
            "samples": ctx.samples,
            "failures": failures,
            "known_hits": dict(known_hits),
            "other_buckets": dict(ctx.other_buckets),
            "rounds": rounds,
            "clean_final_round": clean,
            "total_evaluations_all_rounds": total_evals,
            "info": ctx.info,
        }
    except BaseException:
        return {"ok": False, "shard": shard, "error": traceback.format_exc()}


def slug(s):
    return re.sub(r"[^A-Za-z0-9_.-]+", "_", s)[:80].strip("_") or "case"


def write_replay(prop, failure, seed, tier):
    d = os.path.join(ROOT, "out", "replays", prop)
    os.makedirs(d, exist_ok=True)
    path = os.path.join(d, f"{slug(failure['bucket'])}-s{seed}.json")
    rec = {"property": prop, "seed": seed, "tier": tier}
    rec.update(failure)
    with open(path, "w") as f:
        json.dump(rec, f, indent=1, sort_keys=True)
    return path


def replay_one(prop, mod, findings, case, mode="replay"):
    ctx = Ctx(prop, "quick", 0, findings=findings, mode=mode)
    try:
        mod.replay(ctx, case)
    except Violation:
        pass
    return ctx


def replay_committed(prop, mod, findings):
    """Replay committed regression inputs. Returns list of (path, failure)."""
    d = os.path.join(ROOT, "replays", prop)
    out = []
    n = 0
    if os.path.isdir(d) and not os.environ.get("VERIF_SKIP_REPLAYS"):
        for fn in sorted(os.listdir(d)):
            if not fn.endswith(".json"):
                continue
            path = os.path.join(d, fn)
            with open(path) as f:
                rec = json.load(f)
            cases = rec["cases"] if "cases" in rec else [rec["case"]]
            for case in cases:
                n += 1
                ctx = replay_one(prop, mod, findings, case)
                if ctx.failure is not None:
                    out.append((path, ctx.failure))
    return n, out


def probe_findings(prop, mod, findings):
    """Execute each open finding's reproducer; return {id: still_fails}."""
    res = {}
    for f in findings:
        if f.reproducer is None:
            res[f.id] = None
            continue
        ctx = replay_one(prop, mod, findings, f.reproducer, mode="probe")
        res[f.id] = any(fid == f.id for _, fid in ctx.probe_failures)
        unknown = [b for b, fid in ctx.probe_failures if fid is None]
        if unknown:
            res[f.id + ":unexplained"] = unknown
    return res


def main(argv=None):
    ap = argparse.ArgumentParser()
    ap.add_argument("prop")
    ap.add_argument("--tier", default=os.environ.get("VERIF_TIER", "quick"), choices=["quick", "thorough"])
    ap.add_argument("--replay")
    ap.add_argument("--shards", type=int)
    a = ap.parse_args(argv)
    prop = a.prop.upper()
    seed = int(os.environ.get("VERIF_SEED", "1") or "1")
    t0 = time.time()
    try:
        mod = load_module(prop)
        findings = load_findings(prop, mod)
        if a.replay:
            with open(a.replay) as f:
                rec = json.load(f)
            cases = rec["cases"] if "cases" in rec else [rec["case"]]
            bad = 0
            for case in cases:
                ctx = replay_one(prop, mod, findings, case)
                if ctx.failure is not None:
                    bad += 1
                    print(f"VIOLATION property={prop} replay={os.path.abspath(a.replay)}")
                    print("  bucket:", ctx.failure["bucket"])
                    print("  detail:", json.dumps(ctx.failure["detail"])[:2000])
                for fid, n in ctx.known_hits.items():
                    print(f"KNOWN-FINDING: property={prop} {fid} (replayed case is attributed to this finding)")
            if not bad:
                print(f"replay passes: property={prop} cases={len(cases)}")
            return 1 if bad else 0

        # 1. probe known findings, 2. committed replays, 3. generated search
        probe = probe_findings(prop, mod, findings)
        n_replayed, replay_fail = replay_committed(prop, mod, findings)
        nshards = a.shards or (NSHARDS_THOROUGH if a.tier == "thorough" else 1)
        jobs = [(prop, a.tier, seed, s, nshards) for s in range(nshards)]
        if nshards == 1:
            results = [run_shard(jobs[0])]
        else:
            with multiprocessing.get_context("fork").Pool(min(nshards, os.cpu_count() or 1)) as pool:
                results = pool.map(run_shard, jobs, chunksize=1)
        errs = [r for r in results if not r["ok"]]
        if errs:
            for r in errs:
                sys.stderr.write(f"HARNESS ERROR in shard {r['shard']}:\n{r['error']}\n")
            print(f"HARNESS-ERROR property={prop} (exit 2; not a verdict)")
            return 2

        counters = collections.Counter()
        nontrivial = set()
        samples = []
        known_hits = collections.Counter()
        other = collections.Counter()
        failures = {}
        info = {}
        for r in results:
            counters.update(r["counters"])
            nontrivial |= r["nontrivial"]
            for s in r["samples"]:
                if len(samples) < 24:
                    samples.append(s)
            known_hits.update(r["known_hits"])
            other.update(r["other_buckets"])
            info.update(r["info"])
            for fl in r["failures"]:
                b = fl["bucket"]
                if b not in failures or len(json.dumps(fl["case"])) < len(json.dumps(failures[b]["case"])):
                    failures[b] = fl
        lines = []
        for path, fl in replay_fail:
            lines.append(f"VIOLATION property={prop} replay={path}")
            lines.append(f"  (committed regression input fails) bucket: {fl['bucket']} detail: {json.dumps(fl['detail'])[:600]}")
        for b, fl in sorted(failures.items()):
            path = write_replay(prop, fl, seed, a.tier)
            lines.append(f"VIOLATION property={prop} replay={path}")
            lines.append(f"  bucket: {b}")
            lines.append(f"  case: {json.dumps(fl['case'])[:600]}")
            lines.append(f"  detail: {json.dumps(fl['detail'])[:800]}")
        nviol = len(failures) + len(replay_fail)
        for f in findings:
            if probe.get(f.id):
                lines.append(
                    f"KNOWN-FINDING: property={prop} {f.id} {f.summary} [reproducer still fails; generated cases attributed to it this run: {known_hits.get(f.id, 0)}]"
                )
            else:
                lines.append(f"NOTE: known finding {f.id} no longer reproduces on this tree (no KNOWN-FINDING line emitted)")
            if probe.get(f.id + ":unexplained"):
                lines.append(f"NOTE: reproducer of {f.id} also shows unexplained buckets {probe[f.id + ':unexplained']}")

        wall = time.time() - t0
        cov = {
            # evaluations = oracle evaluations at the granularity at which non-trivial cases are counted (a module may name
            # the counter, e.g. rule applications); cases_generated = inputs produced by the generators / enumerations
            "evaluations": int(counters.get(getattr(mod, "EVALUATION_COUNTER", "evaluations"), 0)) or int(counters.get("evaluations", 0)),
            "cases_generated": int(counters.get("evaluations", 0)),
            "distinct_nontrivial": len(nontrivial),
            "rule": getattr(mod, "RULE", ""),
            "samples": samples or ["(no samples recorded)"],
            "exhaustive": bool(info.get("exhaustive", False)),
            "counters": {k: v for k, v in sorted(counters.items()) if not k.startswith("_")},
            "shards": nshards,
            "rounds_max": max(r["rounds"] for r in results),
            "committed_replays_run": n_replayed,
            "known_finding_hits": dict(known_hits),
            "known_findings_probe": {k: v for k, v in probe.items()},
            "other_bucket_sightings": dict(other),
            "info": info,
        }
        ev = {
            "property_id": prop,
            "tier": a.tier,
            "seed": seed,
            "level": getattr(mod, "LEVEL", "exploration"),
            "coverage": cov,
            "assumptions": list(getattr(mod, "ASSUMPTIONS", [])),
            "wall_s": round(wall, 2),
            "violations": nviol,
        }
        evdir = os.environ.get("VERIF_EVIDENCE_DIR") or os.path.join(ROOT, "evidence")
        os.makedirs(evdir, exist_ok=True)
        with open(os.path.join(evdir, f"{prop}.json"), "w") as f:
            json.dump(ev, f, indent=1, sort_keys=True)
            f.write("\n")
        for ln in lines:
            print(ln)
        print(
            f"{prop} {a.tier} seed={seed}: cases={cov['cases_generated']} evaluations={cov['evaluations']} distinct_nontrivial={cov['distinct_nontrivial']} "
            f"violations={nviol} wall={wall:.1f}s"
        )
        return 1 if nviol else 0
    except HarnessError as e:
        sys.stderr.write(f"HARNESS ERROR: {e}\n")
        print(f"HARNESS-ERROR property={prop} (exit 2; not a verdict)")
        return 2
    except Exception:
        sys.stderr.write("HARNESS ERROR:\n" + traceback.format_exc())
        print(f"HARNESS-ERROR property={prop} (exit 2; not a verdict)")
        return 2


if __name__ == "__main__":
    sys.exit(main())
