"""C14 — traversals and look-ups visit exactly the right nodes in the right order."""
from . import shapes as S
from .runner import hyp_run

PROP = "C14"
LEVEL = "exploration"
RULE = (
    "exhaustive enumeration of every binary tree shape (0/left-only/right-only/2 children) up to 8 nodes "
    "(quick) or 10 nodes (thorough), built once from plain BinaryTreeNode and once from MathExpression "
    "node classes, x 3 visit orders x every stop position, plus Hypothesis-drawn shapes up to 60 nodes; "
    "oracle = naive recursive traversal over left/right links; a case (shape, class family) is non-trivial "
    "when the shape has >= 3 nodes; distinct by (shape text, family)"
)
ASSUMPTIONS = ["node ids are unique inside one tree (as the constructors guarantee)"]
ORDERS = ("preorder", "inorder", "postorder")


def _mk_plain():
    from mathy_core.tree import BinaryTreeNode

    return lambda kind: BinaryTreeNode()


def _mk_math():
    from mathy_core import expressions as E

    counter = [0]
    binaries = [E.AddExpression, E.SubtractExpression, E.MultiplyExpression, E.DivideExpression, E.PowerExpression, E.EqualExpression]
    unaries = [E.NegateExpression, E.SgnExpression, E.AbsExpression, E.FactorialExpression]

    def make(kind):
        counter[0] += 1
        k = counter[0]
        if kind == "leaf":
            # values repeat on purpose (equal constants / equal variable names at different positions)
            # runs of two constants then two variables, so equal-valued constants (4 and 4.0) occur as siblings
            return E.ConstantExpression([4, 4.0][k % 2]) if (k // 2) % 2 == 0 else E.VariableExpression("xyz"[k % 3])
        if kind == "both":
            return binaries[k % len(binaries)]()
        cls = unaries[k % len(unaries)]
        return cls(None, child_on_left=(kind == "left"))

    return make


def check_shape(ctx, case):
    """A tree operation that raises on a well-formed tree is a violation (bucket 'raised'), not a harness error."""
    from . import engine as EN

    try:
        return _check_shape(ctx, case)
    except Exception as ex:
        if not EN.raised_in_code_under_test(ex):
            raise
        return ctx.fail(("raised",) + EN.exc_site(ex), case, {"error": repr(ex)[:200]})


def _check_shape(ctx, case):
    from mathy_core.tree import STOP

    text = case["shape"]
    family = case["family"]
    shape = S.from_text(text)
    make = _mk_plain() if family == "plain" else _mk_math()
    root, nodes = S.build(shape, make)
    n = len(nodes)
    if n >= 3:
        ctx.nontriv((text, family))
    ctx.sample(case)
    aud = S.link_audit(root, nodes)
    if aud:
        return ctx.fail(("build", aud), case, aud)

    for order in ORDERS:
        ref = S.naive(root, order)
        assert len(ref) == n
        method = getattr(root, "visit_" + order)
        # full traversal, with a data token
        seen = []
        token = object()

        def cb(node, depth, data):
            seen.append((node, depth, data is token))
            return None

        ret = method(cb, 0, token)
        ctx.count("traversals")
        if ret is not None:
            return ctx.fail(("visit", order, "return"), case, f"full traversal returned {ret!r}")
        got = [(a, d) for a, d, _ in seen]
        if [(id(a), d) for a, d in got] != [(id(a), d) for a, d in ref]:
            return ctx.fail(("visit", order, "sequence"), case, {"order": order, "got_len": len(got), "want_len": len(ref)})
        if not all(t for _, _, t in seen):
            return ctx.fail(("visit", order, "data"), case, "user data not passed to callback")
        # every stop position
        for k in range(1, n + 1):
            calls = []

            # the stop signal is the string value "stop": also return an equal, non-identical copy
            signal = STOP if (k + len(text)) % 2 == 0 else "".join(["st", "op"])

            def cb2(node, depth, data):
                calls.append((node, depth))
                return signal if len(calls) == k else None

            ret = method(cb2)
            ctx.count("traversals")
            if len(calls) != k or [(id(a), d) for a, d in calls] != [(id(a), d) for a, d in ref[:k]]:
                return ctx.fail(("visit", order, "stop-callbacks"), case, {"order": order, "stop_at": k, "calls": len(calls)})
            if ret != STOP:
                return ctx.fail(("visit", order, "stop-return"), case, {"order": order, "stop_at": k, "returned": repr(ret)})

    # link queries
    for node in nodes:
        kids = [c for c in (node.left, node.right) if c is not None]
        if [id(c) for c in node.get_children()] != [id(c) for c in kids]:
            return ctx.fail(("query", "get_children"), case, None)
        if node.is_leaf() != (not kids):
            return ctx.fail(("query", "is_leaf"), case, None)
        if node.get_root() is not root:
            return ctx.fail(("query", "get_root"), case, None)
        for side, c in (("left", node.left), ("right", node.right)):
            if c is not None:
                # a node with an absent other child: get_side(None) is ambiguous by design; only ask for real children
                if node.get_side(c) != side:
                    return ctx.fail(("query", "get_side"), case, None)
                sib = node.right if side == "left" else node.left
                if c.get_sibling() is not sib:
                    return ctx.fail(("query", "get_sibling"), case, None)
        if node is root:
            if node.get_sibling() is not None:
                return ctx.fail(("query", "get_sibling-root"), case, None)
        else:
            # root side = side of the root's child that is an ancestor-or-self of node
            a = node
            while a.parent is not root:
                a = a.parent
            want = "left" if root.left is a else "right"
            if node.get_root_side() != want:
                return ctx.fail(("query", "get_root_side"), case, None)
        # a non-child must be refused
        stranger = make("leaf")
        try:
            node.get_side(stranger)
            return ctx.fail(("query", "get_side-nonchild"), case, "get_side(non-child) did not raise")
        except ValueError:
            pass
        ctx.count("queries")

    if family == "math":
        from mathy_core import expressions as E

        for order in ORDERS:
            lst = root.to_list(order)
            if [id(x) for x in lst] != [id(a) for a, _ in S.naive(root, order)]:
                return ctx.fail(("to_list", order), case, None)
        inorder = [a for a, _ in S.naive(root, "inorder")]
        for node in inorder:
            if root.find_id(node.id) is not node:
                return ctx.fail(("find_id", "present"), case, {"id": node.id})
        if root.find_id("no-such-id") is not None:
            return ctx.fail(("find_id", "absent"), case, None)
        # look-ups from an inner receiver agree with that receiver's own traversal
        for sub in nodes[1:5]:
            inside = {id(a) for a, _ in S.naive(sub, "inorder")}
            for node in inorder:
                got = sub.find_id(node.id)
                want = node if id(node) in inside else None
                if got is not want:
                    return ctx.fail(("find_id", "inner-receiver"), case, {"receiver": sub.id, "id": node.id, "found": getattr(got, "id", None)})
            for cls in (E.MathExpression, E.ConstantExpression, E.BinaryExpression):
                if [id(x) for x in sub.find_type(cls)] != [id(a) for a, _ in S.naive(sub, "inorder") if isinstance(a, cls)]:
                    return ctx.fail(("find_type", "inner-receiver"), case, {"class": cls.__name__})
        classes = {type(x) for x in inorder}

        classes |= {E.MathExpression, E.BinaryExpression, E.UnaryExpression, E.FunctionExpression}
        for cls in classes:
            want = [id(x) for x in inorder if isinstance(x, cls)]
            if [id(x) for x in root.find_type(cls)] != want:
                return ctx.fail(("find_type",), case, {"class": cls.__name__})
        # sub-tree queries: start the visit below the root, depth restarts at 0
        for node in nodes[: min(len(nodes), 6)]:
            if [id(x) for x in node.to_list("inorder")] != [id(a) for a, _ in S.naive(node, "inorder")]:
                return ctx.fail(("to_list", "subtree"), case, None)
        ctx.count("lookups")


def _queries_agree(ctx, case, root, nodes, what):
    """get_root / get_root_side / get_sibling / get_children / is_leaf / get_side of every node against the links as they
    are NOW. Returns True when all agree (a failure has been reported otherwise)."""
    for node in nodes:
        top = node
        hops = 0
        while top.parent is not None and hops < 10000:
            top = top.parent
            hops += 1
        kids = [c for c in (node.left, node.right) if c is not None]
        if node.get_root() is not top:
            ctx.fail(("query-after-relink", "get_root", what), case, None)
            return False
        if [id(c) for c in node.get_children()] != [id(c) for c in kids] or node.is_leaf() != (not kids):
            ctx.fail(("query-after-relink", "get_children/is_leaf", what), case, None)
            return False
        for side, c in (("left", node.left), ("right", node.right)):
            if c is not None and (node.get_side(c) != side or c.get_sibling() is not (node.right if side == "left" else node.left)):
                ctx.fail(("query-after-relink", "get_side/get_sibling", what), case, None)
                return False
        if node.parent is None:
            if node.get_sibling() is not None:
                ctx.fail(("query-after-relink", "get_sibling-root", what), case, None)
                return False
        else:
            a = node
            while a.parent is not top:
                a = a.parent
            if node.get_root_side() != ("left" if top.left is a else "right"):
                ctx.fail(("query-after-relink", "get_root_side", what), case, None)
                return False
    return True


def check_relink(ctx, case):
    """The queries describe the links as they are when asked: every query is asked of every node first, then the tree is
    re-linked through the public setters (wrapped under a new root on either side, a sub-tree detached, a sub-tree moved to
    another parent, a node rotated) and every query is asked again."""
    from . import engine as EN

    try:
        return _check_relink(ctx, case)
    except Exception as ex:
        if not EN.raised_in_code_under_test(ex):
            raise
        return ctx.fail(("raised-after-relink",) + EN.exc_site(ex), case, {"error": repr(ex)[:200]})


def _check_relink(ctx, case):
    shape = S.from_text(case["shape"])
    k = case["k"]
    for op in ("wrap-left", "wrap-right", "detach", "move", "rotate"):
        make = _mk_plain() if case["family"] == "plain" else _mk_math()
        root, nodes = S.build(shape, make)
        if not _queries_agree(ctx, case, root, nodes, "before"):
            return
        n = nodes[k % len(nodes)]
        if op in ("wrap-left", "wrap-right"):
            top = make("left" if op == "wrap-left" else "right")
            (top.set_left if op == "wrap-left" else top.set_right)(root)
            allnodes = [top] + nodes
        elif op == "detach":
            if n.parent is None:
                continue
            p = n.parent
            (p.set_left if p.left is n else p.set_right)(None, clear_old_child_parent=True)
            allnodes = nodes
        elif op == "move":
            # move the sub-tree of n under a leaf that is not inside it
            inside = {id(a) for a, _ in S.naive(n, "preorder")}
            target = next((m for m in nodes if id(m) not in inside and m.left is None and m.right is None), None)
            if n.parent is None or target is None:
                continue
            p = n.parent
            (p.set_left if p.left is n else p.set_right)(None, clear_old_child_parent=True)
            target.set_left(n)
            allnodes = nodes
        else:
            if n.parent is None:
                continue
            n.rotate()
            allnodes = nodes
        ctx.count("relinks")
        if len(nodes) >= 3:
            ctx.nontriv(("relink", case["shape"], case["family"], k, op))
        if not _queries_agree(ctx, case, None, allnodes, op):
            return


def replay(ctx, case):
    if "k" in case:
        return check_relink(ctx, case)
    check_shape(ctx, case)


def run(ctx):
    max_n = 8 if ctx.tier == "quick" else 10
    total = 0
    for n in range(1, max_n + 1):
        all_shapes = S.shapes_exact(n)
        for i, sh in enumerate(all_shapes):
            if i % ctx.nshards != ctx.shard:
                continue
            text = S.to_text(sh)
            for family in ("plain", "math"):
                ctx.count("evaluations")
                ctx.count(f"enumerated:n={n}")
                check_shape(ctx, {"shape": text, "family": family})
                total += 1
    ctx.info["exhaustive"] = True
    ctx.info["exhaustive_bound"] = f"all shapes with <= {max_n} nodes, both class families, 3 orders, every stop position"
    from hypothesis import strategies as st

    strat = st.builds(lambda s, f: {"shape": s, "family": f}, S.shape_strategy(60, 9), st.sampled_from(["plain", "math"]))
    hyp_run(ctx, "random-shapes", strat, check_shape, ctx.n(300, 1500))
    # queries after re-linking: every shape <= 6 (quick) / 7 (thorough) nodes x every node x five re-link operations
    rn = 6 if ctx.tier == "quick" else 7
    for n in range(2, rn + 1):
        for i, sh in enumerate(S.shapes_exact(n)):
            if i % ctx.nshards != ctx.shard:
                continue
            for k in range(n):
                ctx.count("evaluations")
                check_relink(ctx, {"shape": S.to_text(sh), "family": "plain" if (i + k) % 2 else "math", "k": k})
    relink = st.builds(lambda s, f, k: {"shape": s, "family": f, "k": k}, S.shape_strategy(40, 5), st.sampled_from(["plain", "math"]), st.integers(0, 39))
    hyp_run(ctx, "relink", relink, check_relink, ctx.n(300, 1500))
