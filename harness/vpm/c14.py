"""C14 — traversals and look-ups visit exactly the right nodes in the right order."""
from . import shapes as S
from .runner import hyp_run

PROP = "C14"
LEVEL = "exploration"
RULE = (
    "exhaustive enumeration of every binary tree shape (0/left-only/right-only/2 children) up to 8 nodes "
    "(quick) or 10 nodes (thorough), built once from plain BinaryTreeNode and once from MathExpression "
    "node classes, x 3 visit orders x every stop position, plus Hypothesis-drawn shapes up to 60 nodes; "
    "oracle = naive recursive traversal over left/right links; a case (shape, class family) is non-trivial "
    "when the shape has >= 3 nodes; distinct by (shape text, family)"
)
ASSUMPTIONS = ["node ids are unique inside one tree (as the constructors guarantee)"]
ORDERS = ("preorder", "inorder", "postorder")


def _mk_plain():
    from mathy_core.tree import BinaryTreeNode

    return lambda kind: BinaryTreeNode()


def _mk_math():
    from mathy_core import expressions as E

    counter = [0]
    binaries = [E.AddExpression, E.SubtractExpression, E.MultiplyExpression, E.DivideExpression, E.PowerExpression, E.EqualExpression]
    unaries = [E.NegateExpression, E.SgnExpression, E.AbsExpression, E.FactorialExpression]

    def make(kind):
        counter[0] += 1
        k = counter[0]
        if kind == "leaf":
            # values repeat on purpose (equal constants / equal variable names at different positions)
            # runs of two constants then two variables, so equal-valued constants (4 and 4.0) occur as siblings
            return E.ConstantExpression([4, 4.0][k % 2]) if (k // 2) % 2 == 0 else E.VariableExpression("xyz"[k % 3])
        if kind == "both":
            return binaries[k % len(binaries)]()
        cls = unaries[k % len(unaries)]
        return cls(None, child_on_left=(kind == "left"))

    return make


def check_shape(ctx, case):
    """A tree operation that raises on a well-formed tree is a violation (bucket 'raised'), not a harness error."""
    from . import engine as EN

    try:
        return _check_shape(ctx, case)
    except Exception as ex:
        if not EN.raised_in_code_under_test(ex):
            raise
        return ctx.fail(("raised",) + EN.exc_site(ex), case, {"error": repr(ex)[:200]})


def _check_shape(ctx, case):
    from mathy_core.tree import STOP

    text = case["shape"]
    family = case["family"]
    shape = S.from_text(text)
    make = _mk_plain() if family == "plain" else _mk_math()
    root, nodes = S.build(shape, make)
    n = len(nodes)
    if n >= 3:
        ctx.nontriv((text, family))
    ctx.sample(case)
    aud = S.link_audit(root, nodes)
    if aud:
        return ctx.fail(("build", aud), case, aud)

    for order in ORDERS:
        ref = S.naive(root, order)
        assert len(ref) == n
        method = getattr(root, "visit_" + order)
        # full traversal, with a data token
        seen = []
        token = object()

        def cb(node, depth, data):
            seen.append((node, depth, data is token))
            return None

        ret = method(cb, 0, token)
        ctx.count("traversals")
        if ret is not None:
            return ctx.fail(("visit", order, "return"), case, f"full traversal returned {ret!r}")
        got = [(a, d) for a, d, _ in seen]
        if [(id(a), d) for a, d in got] != [(id(a), d) for a, d in ref]:
            return ctx.fail(("visit", order, "sequence"), case, {"order": order, "got_len": len(got), "want_len": len(ref)})
        if not all(t for _, _, t in seen):
            return ctx.fail(("visit", order, "data"), case, "user data not passed to callback")
        # every stop position
        for k in range(1, n + 1):
            calls = []

            # the stop signal is the string value "stop": also return an equal, non-identical copy
            signal = STOP if (k + len(text)) % 2 == 0 else "".join(["st", "op"])

            def cb2(node, depth, data):
                calls.append((node, depth))
                return signal if len(calls) == k else None

            ret = method(cb2)
            ctx.count("traversals")
            if len(calls) != k or [(id(a), d) for a, d in calls] != [(id(a), d) for a, d in ref[:k]]:
                return ctx.fail(("visit", order, "stop-callbacks"), case, {"order": order, "stop_at": k, "calls": len(calls)})
            if ret != STOP:
                return ctx.fail(("visit", order, "stop-return"), case, {"order": order, "stop_at": k, "returned": repr(ret)})

    # link queries
    for node in nodes:
        kids = [c for c in (node.left, node.right) if c is not None]
        if [id(c) for c in node.get_children()] != [id(c) for c in kids]:
            return ctx.fail(("query", "get_children"), case, None)
        if node.is_leaf() != (not kids):
            return ctx.fail(("query", "is_leaf"), case, None)
        if node.get_root() is not root:
            return ctx.fail(("query", "get_root"), case, None)
        for side, c in (("left", node.left), ("right", node.right)):
            if c is not None:
                # a node with an absent other child: get_side(None) is ambiguous by design; only ask for real children
                if node.get_side(c) != side:
                    return ctx.fail(("query", "get_side"), case, None)
                sib = node.right if side == "left" else node.left
                if c.get_sibling() is not sib:
                    return ctx.fail(("query", "get_sibling"), case, None)
        if node is root:
            if node.get_sibling() is not None:
                return ctx.fail(("query", "get_sibling-root"), case, None)
        else:
            # root side = side of the root's child that is an ancestor-or-self of node
            a = node
            while a.parent is not root:
                a = a.parent
            want = "left" if root.left is a else "right"
            if node.get_root_side() != want:
                return ctx.fail(("query", "get_root_side"), case, None)
        # a non-child must be refused
        stranger = make("leaf")
        try:
            node.get_side(stranger)
            return ctx.fail(("query", "get_side-nonchild"), case, "get_side(non-child) did not raise")
        except ValueError:
            pass
        ctx.count("queries")

    if family == "math":
        from mathy_core import expressions as E

        for order in ORDERS:
            lst = root.to_list(order)
            if [id(x) for x in lst] != [id(a) for a, _ in S.naive(root, order)]:
                return ctx.fail(("to_list", order), case, None)
        inorder = [a for a, _ in S.naive(root, "inorder")]
        for node in inorder:
            if root.find_id(node.id) is not node:
                return ctx.fail(("find_id", "present"), case, {"id": node.id})
        if root.find_id("no-such-id") is not None:
            return ctx.fail(("find_id", "absent"), case, None)
        # look-ups from an inner receiver agree with that receiver's own traversal
        for sub in nodes[1:5]:
            inside = {id(a) for a, _ in S.naive(sub, "inorder")}
            for node in inorder:
                got = sub.find_id(node.id)
                want = node if id(node) in inside else None
                if got is not want:
                    return ctx.fail(("find_id", "inner-receiver"), case, {"receiver": sub.id, "id": node.id, "found": getattr(got, "id", None)})
            for cls in (E.MathExpression, E.ConstantExpression, E.BinaryExpression):
                if [id(x) for x in sub.find_type(cls)] != [id(a) for a, _ in S.naive(sub, "inorder") if isinstance(a, cls)]:
                    return ctx.fail(("find_type", "inner-receiver"), case, {"class": cls.__name__})
        classes = {type(x) for x in inorder}

        classes |= {E.MathExpression, E.BinaryExpression, E.UnaryExpression, E.FunctionExpression}
        for cls in classes:
            want = [id(x) for x in inorder if isinstance(x, cls)]
            if [id(x) for x in root.find_type(cls)] != want:
                return ctx.fail(("find_type",), case, {"class": cls.__name__})
        # sub-tree queries: start the visit below the root, depth restarts at 0
        for node in nodes[: min(len(nodes), 6)]:
            if [id(x) for x in node.to_list("inorder")] != [id(a) for a, _ in S.naive(node, "inorder")]:
                return ctx.fail(("to_list", "subtree"), case, None)
        ctx.count("lookups")


def replay(ctx, case):
    check_shape(ctx, case)


def run(ctx):
    max_n = 8 if ctx.tier == "quick" else 10
    total = 0
    for n in range(1, max_n + 1):
        all_shapes = S.shapes_exact(n)
        for i, sh in enumerate(all_shapes):
            if i % ctx.nshards != ctx.shard:
                continue
            text = S.to_text(sh)
            for family in ("plain", "math"):
                ctx.count("evaluations")
                ctx.count(f"enumerated:n={n}")
                check_shape(ctx, {"shape": text, "family": family})
                total += 1
    ctx.info["exhaustive"] = True
    ctx.info["exhaustive_bound"] = f"all shapes with <= {max_n} nodes, both class families, 3 orders, every stop position"
    from hypothesis import strategies as st

    strat = st.builds(lambda s, f: {"shape": s, "family": f}, S.shape_strategy(60, 9), st.sampled_from(["plain", "math"]))
    hyp_run(ctx, "random-shapes", strat, check_shape, ctx.n(300, 1500))
