"""C17 — generated problems are always valid and contain what they promise."""
import random

from hypothesis import strategies as st

from . import audit as A
from . import engine as E
from .runner import hyp_run

PROP = "C17"
LEVEL = "exploration"
RULE = (
    "(generator, seed of the random module, parameter record, pretty-number mode) drawn by Hypothesis: 7 problem "
    "generators with term counts from the minimum each accepts up to what the 24-letter alphabet allows (defaults "
    "included), probabilities in [0,1], both easy/powers flags, operator choices incl. lists, plus get_rand_vars "
    "(n <= available names, exclusion lists, common flag) and split_in_two_random; oracle: no exception, the parser "
    "accepts the text, complexity > 0; for the four generators that promise a like-term pair an independent flattening of "
    "the parsed '+' chain finds two addends with the same (variable, exponent); requested variables are distinct and not "
    "excluded; splits satisfy lo+hi==v, 0<=lo<=hi; non-trivial = non-pretty mode or a boundary parameter (min/max term "
    "counts, non-empty exclusions); distinct by (generator, seed, parameters, mode)"
)
ASSUMPTIONS = [
    "parameter ranges (nothing is documented beyond defaults): binomial generators 1<=min_vars<=max_vars<=number of term slots; "
    "gen_simplify_multiple_terms 2<=num_terms<=12, inner_terms_scaling in [0.1,1], noise_terms None or 1..5; combine_terms_in_place "
    "2<=min<=max<=26 (its own defaults are 16..26); commute_haystack 3<=min<=max<=14, blockers 1..3; move_around_blockers n in 1..8 / 1..6",
    "the random module is seeded inside each case and the pretty-number switch restored afterwards, so cases are independent",
]

prob = st.sampled_from([0.0, 0.1, 0.33, 0.5, 0.66, 0.8, 1.0])
seeds = st.integers(0, 2**31 - 1)


def _rec(name, **kw):
    keys = sorted(kw)
    return st.tuples(seeds, st.booleans(), *[kw[k] for k in keys]).map(
        lambda t: {"gen": name, "seed": t[0], "pretty": t[1], "kwargs": dict(zip(keys, t[2:]))}
    )


def minmax(lo, hi):
    return st.integers(lo, hi).flatmap(lambda a: st.integers(a, hi).map(lambda b: (a, b)))


def case_strategy():
    binom = lambda name, slots: st.tuples(seeds, st.booleans(), minmax(1, slots), st.booleans(), prob, prob).map(
        lambda t: {"gen": name, "seed": t[0], "pretty": t[1], "kwargs": {"min_vars": t[2][0], "max_vars": t[2][1], "simple_variables": t[3], "powers_probability": t[4], "like_variables_probability": t[5]}}
    )
    simplify = st.tuples(
        seeds, st.booleans(), st.integers(2, 12), st.booleans(), st.sampled_from([None, "+", "-", "*", ["+", "-"], ["+"]]), st.sampled_from([0.1, 0.3, 0.5, 1.0]),
        prob, prob, prob, prob, prob, prob, st.sampled_from([None, None, 1, 2, 5]),
    ).map(
        lambda t: {"gen": "gen_simplify_multiple_terms", "seed": t[0], "pretty": t[1], "kwargs": {
            "num_terms": t[2], "optional_var": t[3], "op": t[4], "inner_terms_scaling": t[5], "powers_probability": t[6], "optional_var_probability": t[7],
            "noise_probability": t[8], "shuffle_probability": t[9], "share_var_probability": t[10], "grouping_noise_probability": t[11], "noise_terms": t[12]}}
    )
    combine_default = st.tuples(seeds, st.booleans()).map(lambda t: {"gen": "gen_combine_terms_in_place", "seed": t[0], "pretty": t[1], "kwargs": {}})
    combine = st.tuples(seeds, st.booleans(), minmax(2, 26), st.booleans(), st.booleans()).map(
        lambda t: {"gen": "gen_combine_terms_in_place", "seed": t[0], "pretty": t[1], "kwargs": {"min_terms": t[2][0], "max_terms": t[2][1], "easy": t[3], "powers": t[4]}}
    )
    hay = st.tuples(seeds, st.booleans(), minmax(3, 14), st.integers(1, 3), st.booleans(), st.booleans()).map(
        lambda t: {"gen": "gen_commute_haystack", "seed": t[0], "pretty": t[1], "kwargs": {"min_terms": t[2][0], "max_terms": t[2][1], "commute_blockers": t[3], "easy": t[4], "powers": t[5]}}
    )
    hay_default = st.tuples(seeds, st.booleans()).map(lambda t: {"gen": "gen_commute_haystack", "seed": t[0], "pretty": t[1], "kwargs": {}})
    b1 = st.tuples(seeds, st.booleans(), st.integers(1, 8), prob).map(lambda t: {"gen": "gen_move_around_blockers_one", "seed": t[0], "pretty": t[1], "kwargs": {"number_blockers": t[2], "powers_probability": t[3]}})
    b2 = st.tuples(seeds, st.booleans(), st.integers(1, 6), prob).map(lambda t: {"gen": "gen_move_around_blockers_two", "seed": t[0], "pretty": t[1], "kwargs": {"number_blockers": t[2], "powers_probability": t[3]}})
    letters = list("abcdfghjklmnopqrstuvwxyz")
    grv = st.tuples(seeds, st.lists(st.sampled_from(letters + ["e", "i"]), max_size=10, unique=True), st.booleans(), st.integers(0, 100)).map(
        lambda t: {"gen": "get_rand_vars", "seed": t[0], "pretty": True, "kwargs": {"exclude_vars": t[1], "common_variables": t[2]}, "n_frac": t[3]}
    )
    split = st.tuples(seeds, st.one_of(st.integers(0, 1000), st.integers(0, 10**30), st.sampled_from([10**15 + 1, 10**18 + 1, 2**53 + 1]))).map(lambda t: {"gen": "split_in_two_random", "seed": t[0], "pretty": True, "kwargs": {"value": t[1]}})
    templ = st.tuples(seeds, st.booleans(), st.integers(1, 8), st.booleans(), prob, st.lists(st.tuples(st.sampled_from(list("xyzab")), st.sampled_from([None, 2, 3])), max_size=4)).map(
        lambda t: {"gen": "get_rand_term_templates", "seed": t[0], "pretty": t[1], "kwargs": {"num_templates": t[2], "common_variables": t[3], "exponent_probability": t[4], "exclude_like": [list(e) for e in t[5]]}}
    )
    return st.one_of(templ, binom("gen_binomial_times_binomial", 4), binom("gen_binomial_times_monomial", 3), simplify, simplify, combine_default, combine, hay, hay_default, b1, b2, grv, split)


PROMISES_LIKE_TERMS = {"gen_combine_terms_in_place", "gen_commute_haystack", "gen_move_around_blockers_one", "gen_move_around_blockers_two"}


def addends(root):
    out = []
    stack = [root]
    while stack:
        n = stack.pop()
        if A.kind(n) in ("AddExpression", "SubtractExpression"):
            stack.append(n.right)
            stack.append(n.left)
        else:
            out.append(n)
    return out


def term_key(n):
    """(variable, exponent) of a natural term [c]v[^e], by own structural analysis; None otherwise."""
    if A.kind(n) == "MultiplyExpression" and A.kind(n.left) == "ConstantExpression":
        n = n.right
    if A.kind(n) == "VariableExpression":
        return (n.identifier, None)
    if A.kind(n) == "PowerExpression" and A.kind(n.left) == "VariableExpression" and A.kind(n.right) == "ConstantExpression":
        return (n.left.identifier, repr(A.payload(n.right)))
    return None


def check_case(ctx, case):
    from mathy_core import problems as P

    name = case["gen"]
    kwargs = dict(case["kwargs"])
    state = random.getstate()
    pretty_before = getattr(P, "_pretty_numbers", True)  # restored afterwards; the default mode if the flag is not exposed
    key = (name, case["seed"], repr(sorted(kwargs.items())), case["pretty"], case.get("n_frac"))
    try:
        random.seed(case["seed"])
        P.use_pretty_numbers(bool(case["pretty"]))
        ctx.count("calls:" + name)
        if name == "split_in_two_random":
            v = kwargs["value"]
            try:
                lo, hi = P.split_in_two_random(v)
            except Exception as e:
                return ctx.fail(("raised", name, type(e).__name__), case, {"error": repr(e)[:200]})
            if lo + hi != v or not (0 <= lo <= hi):
                return ctx.fail(("split-wrong",), case, {"result": [lo, hi]})
            if v in (0, 1, 2, 1000):
                ctx.nontriv(key)
            return
        if name == "get_rand_vars":
            common = kwargs["common_variables"]
            pool = list(P.common_variables) if common else list(P.variables)
            excl = kwargs["exclude_vars"]
            avail = [v for v in pool if v not in excl]
            n = min(len(avail), 25, (case["n_frac"] * (len(avail) + 1)) // 101)
            try:
                got = P.get_rand_vars(n, list(excl), common)
            except Exception as e:
                return ctx.fail(("raised", name, type(e).__name__), case, {"n": n, "available": len(avail), "error": repr(e)[:200]})
            if len(got) != n or len(set(got)) != n or any(v in excl for v in got) or any(v not in pool for v in got):
                return ctx.fail(("rand-vars-wrong",), case, {"n": n, "got": got})
            if excl or n == len(avail):
                ctx.nontriv(key)
            ctx.sample({"gen": name, "n": n, "exclude": excl, "common": common, "got": got}, cap=2, group=name)
            return
        if name == "get_rand_term_templates":
            excl = [P.MathyTermTemplate(variable=v, exponent=e) for v, e in kwargs["exclude_like"]]
            n = kwargs["num_templates"]
            if kwargs["common_variables"]:
                n = min(n, 3)  # three common variables; with exponents more keys exist, but 3 is always satisfiable
            try:
                got = P.get_rand_term_templates(n, exclude_like=excl, common_variables=kwargs["common_variables"], exponent_probability=kwargs["exponent_probability"])
            except EnvironmentError:
                # documented give-up after 100 failed draws; only legitimate when few keys are available
                if kwargs["common_variables"] and kwargs["exponent_probability"] < 0.34 and len(excl) >= 1:
                    ctx.count("templates:gave-up(legitimate)")
                    return
                return ctx.fail(("raised", name, "EnvironmentError"), case, {"n": n})
            except Exception as e:
                return ctx.fail(("raised", name, type(e).__name__), case, {"error": repr(e)[:200]})
            # templates are distinct in the library's own sense: the text "variable^exponent" (x^2 and x^2.0 are two texts)
            keys = [(t.variable, str(t.exponent)) for t in got]
            banned = {(t.variable, str(t.exponent)) for t in excl}
            if len(got) != n or len(set(keys)) != n or any(k in banned for k in keys) or any(k[1] == "1" for k in keys):
                return ctx.fail(("term-templates-wrong",), case, {"n": n, "got": [repr(k) for k in keys], "excluded": [repr(k) for k in banned]})
            for t in got:
                txt = t.make()
                root = E.parse(txt) if txt else None
                if root is None:
                    return ctx.fail(("term-template-text-rejected",), case, {"text": txt})
            if excl:
                ctx.nontriv(key)
            ctx.sample({"gen": name, "n": n, "got": [repr(k) for k in keys]}, cap=2, group=name)
            return
        fn = getattr(P, name)
        try:
            if name == "gen_simplify_multiple_terms":
                nt = kwargs.pop("num_terms")
                res = fn(nt, **kwargs)
            elif name.startswith("gen_move_around"):
                nb = kwargs.pop("number_blockers")
                res = fn(nb, **kwargs)
            else:
                res = fn(**kwargs)
        except Exception as e:
            return ctx.fail(("raised", name, type(e).__name__), case, {"error": repr(e)[:300]})
        if not (isinstance(res, tuple) and len(res) == 2 and isinstance(res[0], str)):
            return ctx.fail(("bad-return", name), case, {"returned": repr(res)[:200]})
        text, complexity = res
        det = {"text": text, "complexity": complexity}
        if not (isinstance(complexity, (int, float)) and complexity > 0):
            return ctx.fail(("complexity-not-positive", name), case, det)
        from mathy_core.parser import ExpressionParser

        try:
            root = ExpressionParser().parse(text)
        except Exception as e:
            det["error"] = repr(e)[:200]
            return ctx.fail(("text-rejected", name, type(e).__name__), case, det)
        if A.audit(root) is not None:
            return ctx.fail(("text-parses-malformed", name), case, det)
        promised = name in PROMISES_LIKE_TERMS
        if name == "gen_simplify_multiple_terms":
            # "a polynomial problem with like terms": guaranteed by construction whenever fewer like-term
            # variables are drawn than terms are requested (the templates wrap around), every term keeps its
            # variable and the terms are added/subtracted
            kw = case["kwargs"]
            nt = kw["num_terms"]
            n_like = 1 if nt == 2 else max(2, int(nt * kw["inner_terms_scaling"]))
            additive = kw["op"] in ("+", "-", ["+", "-"], ["+"])
            promised = additive and not kw["optional_var"] and n_like < nt
        if promised:
            keys = [term_key(t) for t in addends(root)]
            real = [k for k in keys if k is not None]
            if len(real) == len(set(real)):
                det["addend_keys"] = [repr(k) for k in keys]
                return ctx.fail(("no-like-terms", name), case, det)
        boundary = not case["pretty"] or any(k in ("min_terms", "max_terms", "min_vars", "max_vars", "noise_terms") for k in kwargs)
        if boundary:
            ctx.nontriv(key)
        ctx.sample({"gen": name, "seed": case["seed"], "pretty": case["pretty"], "kwargs": case["kwargs"], "text": text, "complexity": complexity}, cap=2, group=name)
    finally:
        P.use_pretty_numbers(pretty_before)
        random.setstate(state)


def replay(ctx, case):
    check_case(ctx, case)


def run(ctx):
    hyp_run(ctx, "problems", case_strategy(), check_case, ctx.n(15000, 80000))
