"""C07 — rewritten trees are structurally sound; untouched context intact; source not modified."""
from . import audit as A
from . import engine as E
from . import exact as X
from . import gen as G
from .runner import hyp_run

PROP = "C07"
LEVEL = "exploration"
EVALUATION_COUNTER = "applications"
RULE = (
    "G-tree trees x all 11 rule instances x every applicable node (applied on a clone_from_root copy); oracle: "
    "link/arity/aliasing audit of the result, every subtree hanging off the path root->parent of the rewritten "
    "node re-found in the result with equal structural signature and in the same left-to-right order, variable "
    "set unchanged, identity signature of the source tree unchanged, no node object shared between source and "
    "result; non-trivial = application at depth >= 1 (a context exists); distinct by (tree text, pre, rule, in-order index)"
)
ASSUMPTIONS = ["trees with NaN/inf constants are outside the domain (DESIGN 3.3)"]


def check_tree(ctx, case):
    root = E.build_tree(ctx, case)
    if root is None:
        return
    nodes = A.inorder(root)
    text = E.text_of(root)
    ctx.count("trees")
    sampled = False
    for name, rule in E.rules():
        for idx, n in enumerate(nodes):
            try:
                if not rule.can_apply_to(n):
                    continue
            except Exception:
                ctx.count("skipped:can_apply-raised(C06)")
                continue
            src_sig = A.idsig(root)
            src_vars = A.variables(root)
            ctx_subtrees = A.context(n)
            ctx_sigs = [A.sig(t) for t in ctx_subtrees]
            ap = E.apply(rule, n)
            ctx.count("applications")
            ctx.count(f"applied:{name}:{ap.arrangement}")
            det = {"tree": text, "rule": name, "arrangement": ap.arrangement, "node": E.text_of(n), "index": idx}
            if ap.error is not None or ap.result_root is None:
                ctx.count("skipped:apply-raised(C06)")
                continue
            res = ap.result_root
            det["result"] = E.text_of(res)
            bk = (name, ap.arrangement)
            if A.idsig(root) != src_sig:
                return ctx.fail(("source-modified",) + bk, case, det)
            if name == "BM" and ap.target_sig_before is not None and not ({id(x) for x in A.preorder(res)} & ap.target_ids):
                # balanced move builds both new sides on a clone of the whole equation that it takes itself: the
                # tree it was handed is then "the tree from which the rewritten copy was cloned" and must be left
                # as it was (the other rules rewrite the handed tree in place, which is why agents clone first)
                if A.idsig(ap.target_root) != ap.target_sig_before:
                    return ctx.fail(("source-modified-by-copying-rule",) + bk, case, det)
            aud = A.audit(res)
            if aud is not None:
                det["audit"] = aud
                return ctx.fail(("malformed-result", aud.split(" of ")[0][:40]) + bk, case, det)
            src_ids = {id(x) for x in nodes}
            if any(id(x) in src_ids for x in A.preorder(res)):
                return ctx.fail(("shares-node-with-source",) + bk, case, det)
            if X.has_nonfinite(res):
                ctx.count("excluded_nonfinite")
                continue
            if E.has_huge_constant(res):
                ctx.count("excluded_huge_constant")
                continue
            if A.variables(res) != src_vars:
                det["vars"] = [sorted(src_vars), sorted(A.variables(res))]
                return ctx.fail(("variable-set-changed",) + bk, case, det)
            miss = A.find_in_order(res, ctx_sigs)
            if miss is not None:
                det["missing_context"] = E.text_of(ctx_subtrees[miss])
                return ctx.fail(("context-changed",) + bk, case, det)
            if n.parent is not None:
                ctx.nontriv((case["text"], repr(case.get("pre")), name, idx))
                if not sampled:
                    ctx.sample({k: det[k] for k in ("tree", "rule", "arrangement", "node", "result")})
                    sampled = True


def replay(ctx, case):
    check_tree(ctx, case)


def run(ctx):
    # deterministic sweep: every rule template x every coefficient coincidence (root and nested position)
    texts = G.sweep_texts()
    for i, t in enumerate(texts):
        if i % ctx.nshards != ctx.shard:
            continue
        ctx.count("evaluations")
        ctx.count("sweep:cases")
        check_tree(ctx, {"text": t, "pre": []})
    ctx.info["template_sweep_size"] = len(texts)
    # one edit away from every rule template (operator, leaf kind, operand order): near-miss shapes
    near = G.neighbour_texts()
    step = 3 if ctx.tier == "quick" else 1  # quick: every third text, the offset chosen by the seed
    for i, t in enumerate(near):
        if i % step != ctx.seed % step or (i // step) % ctx.nshards != ctx.shard:
            continue
        ctx.count("evaluations")
        ctx.count("near-miss:cases")
        check_tree(ctx, {"text": t, "pre": []})
    ctx.info["near_miss_sweep_size"] = f"{len(near)} texts one edit away from a rule template; every {step}th checked in this tier"
    # bounded-exhaustive small expressions: every tree with <= 2 (quick) / 3 (thorough) binary operators over 6 leaves
    small = G.small_expressions(2 if ctx.tier == "quick" else 3)
    for i, t in enumerate(small):
        if i % ctx.nshards != ctx.shard:
            continue
        ctx.count("evaluations")
        ctx.count("small-exhaustive:cases")
        check_tree(ctx, {"text": t, "pre": []})
    ctx.info["small_expressions_exhaustive"] = f"{len(small)} expressions with <= {2 if ctx.tier == 'quick' else 3} binary operators over leaves x y 2 -1 0 0.5"
    hyp_run(ctx, "g-tree", G.tree_case(12 if ctx.tier == "quick" else 24), check_tree, ctx.n(3000, 15000))
