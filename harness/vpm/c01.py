"""C01 — every applicable rewrite preserves the value of the expression."""
from . import audit as A
from . import engine as E
from . import equiv as Q
from . import exact as X
from . import gen as G
from .runner import hyp_run

PROP = "C01"
LEVEL = "exploration"
EVALUATION_COUNTER = "applications"
RULE = (
    "G-tree trees (grammar ASTs, rule-shaped templates for every arrangement in drawn contexts, repository "
    "example inputs; 0-4 pre-rewrites) x all 11 rule instances x EVERY applicable node; oracle: exact rational "
    "evaluation of the untouched source tree and of result.get_root() at 8 fixed exact assignments (2 generic "
    "prime ratios, small ints of both signs, 0, halves); equality exact, or within 16 ulp x perturbation "
    "sensitivity of the constants the rule newly created; for equation-rooted trees each side is compared "
    "(sides swapped for the root flip; balanced moves are C02's); non-trivial = result differs structurally and "
    ">= 3 assignments compared; distinct by (tree text, pre, rule, in-order index)"
)
ASSUMPTIONS = [
    "NaN/inf constants are outside the domain",
    "exponents are bounded (|e| <= 64) so exact arithmetic terminates",
    "float powers (non-integer exponents) are compared with rel 1e-9 x condition estimate; ill-conditioned points are skipped and counted",
]


def check_tree(ctx, case):
    root = E.build_tree(ctx, case)
    if root is None:
        return
    nodes = A.inorder(root)
    text = E.text_of(root)
    ctx.count("trees")
    is_eq = Q.is_equation(root)
    src_sig = A.sig(root)
    sampled = False
    for name, rule in E.rules():
        if name == "BM":
            continue
        for idx, n in enumerate(nodes):
            try:
                if not rule.can_apply_to(n):
                    continue
            except Exception:
                ctx.count("skipped:can_apply-raised(C06)")
                continue
            ap = E.apply(rule, n)
            ctx.count("applications")
            ctx.count(f"applied:{name}:{ap.arrangement}")
            if ap.error is not None or ap.result_root is None:
                ctx.count("skipped:apply-raised(C06)")
                continue
            res = ap.result_root
            if A.audit(res) is not None:
                ctx.count("skipped:malformed-result(C07)")
                continue
            if X.has_nonfinite(res):
                ctx.count("excluded_nonfinite")
                continue
            if E.has_huge_constant(res):
                ctx.count("excluded_huge_constant")
                continue
            det = {"tree": text, "rule": name, "arrangement": ap.arrangement, "node": E.text_of(n), "index": idx, "result": E.text_of(res)}
            vs = A.variables(root) | A.variables(res)
            assigns = G.assignments(vs, 8)
            sides = None
            if is_eq:
                sides = "multiset" if (A.kind(n) == "EqualExpression" and name in ("CS1", "CS0")) else [(1, 1), (2, 2)]
            try:
                verdict, info = Q.compare_expressions(ctx, root, res, ap.fresh_consts, assigns, sides)
            except X.Malformed as e:
                ctx.count("skipped:unevaluable-structure")
                continue
            if verdict == "kind":
                det.update(info)
                return ctx.fail((name, ap.arrangement, "equation-kind-changed"), case, det)
            if verdict == "mismatch":
                det.update(info)
                return ctx.fail((name, ap.arrangement, "value"), case, det)
            w = E.evaluate_disagrees(res)
            if w is not None and E.evaluate_disagrees(root) is None:
                det.update(w)
                return ctx.fail((name, ap.arrangement, "evaluate-disagrees-with-structure"), case, det)
            if info.get("compared", 0) >= 3 and A.sig(res) != src_sig:
                ctx.nontriv((case["text"], repr(case.get("pre")), name, idx))
                if not sampled:
                    ctx.sample({k: det[k] for k in ("tree", "rule", "arrangement", "node", "result")})
                    sampled = True


def replay(ctx, case):
    check_tree(ctx, case)


def run(ctx):
    # deterministic sweep: every rule template x every coefficient coincidence (root and nested position)
    texts = G.sweep_texts()
    for i, t in enumerate(texts):
        if i % ctx.nshards != ctx.shard:
            continue
        ctx.count("evaluations")
        ctx.count("sweep:cases")
        check_tree(ctx, {"text": t, "pre": []})
    ctx.info["template_sweep_size"] = len(texts)
    # one edit away from every rule template (operator, leaf kind, operand order): near-miss shapes
    near = G.neighbour_texts()
    step = 3 if ctx.tier == "quick" else 1  # quick: every third text, the offset chosen by the seed
    for i, t in enumerate(near):
        if i % step != ctx.seed % step or (i // step) % ctx.nshards != ctx.shard:
            continue
        ctx.count("evaluations")
        ctx.count("near-miss:cases")
        check_tree(ctx, {"text": t, "pre": []})
    ctx.info["near_miss_sweep_size"] = f"{len(near)} texts one edit away from a rule template; every {step}th checked in this tier"
    # bounded-exhaustive small expressions: every tree with <= 2 (quick) / 3 (thorough) binary operators over 6 leaves
    small = G.small_expressions(2 if ctx.tier == "quick" else 3)
    for i, t in enumerate(small):
        if i % ctx.nshards != ctx.shard:
            continue
        ctx.count("evaluations")
        ctx.count("small-exhaustive:cases")
        check_tree(ctx, {"text": t, "pre": []})
    ctx.info["small_expressions_exhaustive"] = f"{len(small)} expressions with <= {2 if ctx.tier == 'quick' else 3} binary operators over leaves x y 2 -1 0 0.5"
    hyp_run(ctx, "g-tree", G.tree_case(12 if ctx.tier == "quick" else 24), check_tree, ctx.n(2500, 15000))
