"""C01 — every applicable rewrite preserves the value of the expression."""
from . import audit as A
from . import engine as E
from . import equiv as Q
from . import exact as X
from . import gen as G
from .runner import hyp_run

PROP = "C01"
LEVEL = "exploration"
EVALUATION_COUNTER = "applications"
RULE = (
    "G-tree trees (grammar ASTs, rule-shaped templates for every arrangement in drawn contexts, repository "
    "example inputs; 0-4 pre-rewrites) x all 11 rule instances x EVERY applicable node; oracle: exact rational "
    "evaluation of the untouched source tree and of result.get_root() at 8 fixed exact assignments (2 generic "
    "prime ratios, small ints of both signs, 0, halves); equality exact, or within 16 ulp x perturbation "
    "sensitivity of the constants the rule newly created; for equation-rooted trees each side is compared "
    "(sides swapped for the root flip; balanced moves are C02's); non-trivial = result differs structurally and "
    ">= 3 assignments compared; distinct by (tree text, pre, rule, in-order index)"
)
ASSUMPTIONS = [
    "NaN/inf constants are outside the domain",
    "exponents are bounded (|e| <= 64) so exact arithmetic terminates",
    "float powers (non-integer exponents) are compared with rel 1e-9 x condition estimate; ill-conditioned points are skipped and counted",
]


def check_tree(ctx, case):
    root = E.build_tree(ctx, case)
    if root is None:
        return
    nodes = A.inorder(root)
    text = E.text_of(root)
    ctx.count("trees")
    is_eq = Q.is_equation(root)
    src_sig = A.sig(root)
    sampled = False
    for name, rule in E.rules():
        if name == "BM":
            continue
        for idx, n in enumerate(nodes):
            try:
                if not rule.can_apply_to(n):
                    continue
            except Exception:
                ctx.count("skipped:can_apply-raised(C06)")
                continue
            ap = E.apply(rule, n)
            ctx.count("applications")
            ctx.count(f"applied:{name}:{ap.arrangement}")
            if ap.error is not None or ap.result_root is None:
                ctx.count("skipped:apply-raised(C06)")
                continue
            res = ap.result_root
            if A.audit(res) is not None:
                ctx.count("skipped:malformed-result(C07)")
                continue
            if X.has_nonfinite(res):
                ctx.count("excluded_nonfinite")
                continue
            if E.has_huge_constant(res):
                ctx.count("excluded_huge_constant")
                continue
            det = {"tree": text, "rule": name, "arrangement": ap.arrangement, "node": E.text_of(n), "index": idx, "result": E.text_of(res)}
            sides = None
            if is_eq:
                sides = "multiset" if (A.kind(n) == "EqualExpression" and name in ("CS1", "CS0")) else [(1, 1), (2, 2)]
            verdict = judge(ctx, case, name, ap.arrangement, root, res, ap.fresh_consts, sides, det)
            if verdict == "fail":
                return
            if verdict == "compared" and A.sig(res) != src_sig:
                ctx.nontriv((case["text"], repr(case.get("pre")), name, idx))
                if not sampled:
                    ctx.sample({k: det[k] for k in ("tree", "rule", "arrangement", "node", "result")})
                    sampled = True


def judge(ctx, case, name, arrangement, root, res, fresh_consts, sides, det):
    """Compare the value of `root` (before) and `res` (after). Returns 'fail' (reported), 'compared' or 'skipped'."""
    vs = A.variables(root) | A.variables(res)
    assigns = G.assignments(vs, 8)
    try:
        verdict, info = Q.compare_expressions(ctx, root, res, fresh_consts, assigns, sides)
    except X.Malformed:
        ctx.count("skipped:unevaluable-structure")
        return "skipped"
    if verdict == "kind":
        det.update(info)
        ctx.fail((name, arrangement, "equation-kind-changed"), case, det)
        return "fail"
    if verdict == "mismatch":
        det.update(info)
        ctx.fail((name, arrangement, "value"), case, det)
        return "fail"
    w = E.evaluate_disagrees(res)
    if w is not None and E.evaluate_disagrees(root) is None:
        det.update(w)
        ctx.fail((name, arrangement, "evaluate-disagrees-with-structure"), case, det)
        return "fail"
    return "compared" if info.get("compared", 0) >= 3 else "skipped"


def check_inplace(ctx, case):
    """A sequence of rewrites applied IN PLACE on one tree (the way the repository's own rule tests apply a rule) with one
    set of long-lived rule objects that are asked about every node before every step (a search agent's move mask). The
    value must be preserved by every step; anything a rule object remembers about a node or an id must not matter."""
    root = E.parse(case["text"])
    if root is None or X.has_nonfinite(root) or E.has_huge_constant(root):
        return
    rules = E.rule_instances()
    ctx.count("inplace:walks")
    for ri, ni in case["steps"]:
        nodes = A.inorder(root)
        mask = {}
        for name, rule in rules:
            for n in nodes:
                try:
                    if rule.can_apply_to(n):
                        mask.setdefault(name, []).append(n)
                except Exception:
                    ctx.count("skipped:can_apply-raised(C06)")
        name, rule = rules[ri % len(rules)]
        cands = mask.get(name)
        if name == "BM" or not cands:
            continue
        n = cands[ni % len(cands)]
        idx = [id(x) for x in nodes].index(id(n))
        text = E.text_of(root)
        is_eq = Q.is_equation(root)
        sides = None
        if is_eq:
            sides = "multiset" if (A.kind(n) == "EqualExpression" and name in ("CS1", "CS0")) else [(1, 1), (2, 2)]
        arrangement = E.arrangement(rule, n)
        try:
            before = root.clone()
        except Exception:
            return
        before_sig = A.sig(root)
        before_ids = {id(x) for x in nodes}
        det = {"tree": text, "rule": name, "arrangement": arrangement, "node": E.text_of(n), "index": idx, "mode": "in place, long-lived rule objects"}
        try:
            res = rule.apply_to(n).result
            new_root = E._root(res)
        except Exception:
            ctx.count("skipped:apply-raised(C06)")
            return
        ctx.count("applications")
        ctx.count(f"inplace-applied:{name}:{arrangement}")
        if A.audit(new_root) is not None:
            ctx.count("skipped:malformed-result(C07)")
            return
        if X.has_nonfinite(new_root) or E.has_huge_constant(new_root):
            ctx.count("excluded_nonfinite_or_huge")
            return
        det["result"] = E.text_of(new_root)
        fresh = [c for c in A.preorder(new_root) if A.kind(c) == "ConstantExpression" and id(c) not in before_ids]
        verdict = judge(ctx, case, name, arrangement, before, new_root, fresh, sides, det)
        if verdict == "fail":
            return
        if verdict == "compared" and A.sig(new_root) != before_sig:
            ctx.nontriv(("inplace", case["text"], repr(case["steps"]), name, idx))
        root = new_root


def check_focus(ctx, case):
    """One long-lived rule object R is asked about a node A, a DIFFERENT rule then rewrites something below A in place (A's
    object survives), and R's very next question and application concern A again - nothing else is asked of R in between,
    so even a one-slot memo of 'the last node I classified' is stale. The value must be preserved by R's step."""
    root = E.parse(case["text"])
    if root is None or X.has_nonfinite(root) or E.has_huge_constant(root):
        return
    rules = E.rule_instances()
    qi, mi, ri, up = case["focus"]
    qname, Qr = rules[qi % len(rules)]
    name, R = rules[ri % len(rules)]
    if Qr is R or qname == "BM" or name == "BM":
        return
    nodes = A.inorder(root)
    try:
        cands = [n for n in nodes if Qr.can_apply_to(n)]
    except Exception:
        ctx.count("skipped:can_apply-raised(C06)")
        return
    cands = [n for n in cands if n.parent is not None]
    if not cands:
        return
    M = cands[mi % len(cands)]
    anc = M.parent
    if up % 2 and anc.parent is not None:
        anc = anc.parent
    ctx.count("focus:walks")
    try:
        R.can_apply_to(anc)
        new_root = E._root(Qr.apply_to(M).result)
    except Exception:
        ctx.count("skipped:apply-raised(C06)")
        return
    if A.audit(new_root) is not None or X.has_nonfinite(new_root) or E.has_huge_constant(new_root):
        ctx.count("skipped:malformed-or-nonfinite-after-first-step")
        return
    root = new_root
    nodes = A.inorder(root)
    if id(anc) not in {id(x) for x in nodes}:
        return
    try:
        if not R.can_apply_to(anc):
            return
    except Exception:
        ctx.count("skipped:can_apply-raised(C06)")
        return
    n = anc
    idx = [id(x) for x in nodes].index(id(n))
    text = E.text_of(root)
    is_eq = Q.is_equation(root)
    sides = None
    if is_eq:
        sides = "multiset" if (A.kind(n) == "EqualExpression" and name in ("CS1", "CS0")) else [(1, 1), (2, 2)]
    arrangement = None
    try:
        before = root.clone()
    except Exception:
        return
    before_sig = A.sig(root)
    before_ids = {id(x) for x in nodes}
    det = {"tree": text, "rule": name, "arrangement": arrangement, "node": E.text_of(n), "index": idx, "first_step": [qname, E.text_of(M)], "mode": "in place; the rule was asked about this node before another rule rewrote below it"}
    try:
        res = R.apply_to(n).result
        new_root = E._root(res)
    except Exception:
        ctx.count("skipped:apply-raised(C06)")
        return
    ctx.count("applications")
    ctx.count(f"focus-applied:{name}")
    if A.audit(new_root) is not None:
        ctx.count("skipped:malformed-result(C07)")
        return
    if X.has_nonfinite(new_root) or E.has_huge_constant(new_root):
        ctx.count("excluded_nonfinite_or_huge")
        return
    det["result"] = E.text_of(new_root)
    fresh = [c for c in A.preorder(new_root) if A.kind(c) == "ConstantExpression" and id(c) not in before_ids]
    verdict = judge(ctx, case, name, "focus", before, new_root, fresh, sides, det)
    if verdict == "compared" and A.sig(new_root) != before_sig:
        ctx.nontriv(("focus", case["text"], tuple(case["focus"])))


def replay(ctx, case):
    if "focus" in case:
        return check_focus(ctx, case)
    if "steps" in case:
        return check_inplace(ctx, case)
    check_tree(ctx, case)


def run(ctx):
    # deterministic sweep: every rule template x every coefficient coincidence (root and nested position)
    texts = G.sweep_texts()
    for i, t in enumerate(texts):
        if i % ctx.nshards != ctx.shard:
            continue
        ctx.count("evaluations")
        ctx.count("sweep:cases")
        check_tree(ctx, {"text": t, "pre": []})
    ctx.info["template_sweep_size"] = len(texts)
    # one edit away from every rule template (operator, leaf kind, operand order): near-miss shapes
    near = G.neighbour_texts()
    step = 3 if ctx.tier == "quick" else 1  # quick: every third text, the offset chosen by the seed
    for i, t in enumerate(near):
        if i % step != ctx.seed % step or (i // step) % ctx.nshards != ctx.shard:
            continue
        ctx.count("evaluations")
        ctx.count("near-miss:cases")
        check_tree(ctx, {"text": t, "pre": []})
    ctx.info["near_miss_sweep_size"] = f"{len(near)} texts one edit away from a rule template; every {step}th checked in this tier"
    # bounded-exhaustive small expressions: every tree with <= 2 (quick) / 3 (thorough) binary operators over 6 leaves
    small = G.small_expressions(2 if ctx.tier == "quick" else 3)
    for i, t in enumerate(small):
        if i % ctx.nshards != ctx.shard:
            continue
        ctx.count("evaluations")
        ctx.count("small-exhaustive:cases")
        check_tree(ctx, {"text": t, "pre": []})
    ctx.info["small_expressions_exhaustive"] = f"{len(small)} expressions with <= {2 if ctx.tier == 'quick' else 3} binary operators over leaves x y 2 -1 0 0.5"
    hyp_run(ctx, "g-tree", G.tree_case(12 if ctx.tier == "quick" else 24), check_tree, ctx.n(2500, 15000))
    # in-place sequences with long-lived rule objects (deterministic starts from the template sweep, then drawn ones)
    step = 8 if ctx.tier == "quick" else 1
    for i, t in enumerate(texts):
        if i % step != ctx.seed % step or (i // step) % ctx.nshards != ctx.shard:
            continue
        ctx.count("evaluations")
        check_inplace(ctx, {"text": t, "steps": [[(i + 3 * k) % 11, i + k] for k in range(5)]})
    # focused two-step histories: rule R asked about a node, another rule rewrites below it in place, R asked and applied there
    nrules = len(E.rule_instances())
    fstep = 16 if ctx.tier == "quick" else 2
    for i, t in enumerate(texts):
        if i % fstep != ctx.seed % fstep or (i // fstep) % ctx.nshards != ctx.shard:
            continue
        for qi in range(nrules):
            for mi in range(2):
                for ri in range(nrules):
                    for up in range(2):
                        ctx.count("evaluations")
                        check_focus(ctx, {"text": t, "focus": [qi, mi, ri, up]})
    from hypothesis import strategies as st

    foc = st.builds(lambda t, f: {"text": t, "focus": f}, G.tree_text(12), st.tuples(st.integers(0, 10), st.integers(0, 6), st.integers(0, 10), st.integers(0, 1)).map(list))
    hyp_run(ctx, "focus", foc, check_focus, ctx.n(1500, 12000))
    walk = st.builds(lambda t, steps: {"text": t, "steps": steps}, G.tree_text(12), st.lists(st.tuples(st.integers(0, 10), st.integers(0, 40)).map(list), min_size=2, max_size=6))
    hyp_run(ctx, "in-place", walk, check_inplace, ctx.n(600, 5000))
